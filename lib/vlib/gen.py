"""Seeded input proposers.  They only PROPOSE inputs (and label the family a
case belongs to); every verdict about an input -- validity, order, equality,
correct rounding -- is re-derived by TLC from the specification.

An input is a dict {"fmt", "int", "frac", "exp", "tag"} where int/frac are digit
strings (str) or run-length segment lists.
"""
import random

from . import core


class Fmt:
    def __init__(self, name, mbits, ebits, max_digits, fast_exp, disg_exp, tie_lo, tie_hi, p10_lo, p10_hi):
        self.name = name
        self.mbits = mbits
        self.ebits = ebits
        self.bias = (1 << (ebits - 1)) - 1
        self.p = mbits + 1
        self.etiny = 1 - self.bias - mbits
        self.emaxfield = (1 << ebits) - 1
        self.emax = self.emaxfield - 1 - self.bias
        self.infbits = self.emaxfield << mbits
        self.max_digits = max_digits
        self.fast_exp = fast_exp
        self.disg_exp = disg_exp
        self.tie_lo = tie_lo
        self.tie_hi = tie_hi
        self.p10_lo = p10_lo
        self.p10_hi = p10_hi

    def decode(self, bits):
        ef = bits >> self.mbits
        fr = bits & ((1 << self.mbits) - 1)
        if ef == 0:
            return fr, self.etiny
        return fr | (1 << self.mbits), ef - self.bias - self.mbits

    def midpoint(self, bits):
        """midpoint between float `bits` and its successor, as (M, k)"""
        m, e = self.decode(bits)
        return 2 * m + 1, e - 1


F64 = Fmt("f64", 52, 11, 769, 22, 37, -4, 23, -342, 308)
F32 = Fmt("f32", 23, 8, 114, 10, 17, -17, 10, -65, 38)
FMT = {"f64": F64, "f32": F32}


def exact_decimal(M, k):
    """M * 2^k = int(ds) * 10^e10 exactly, ds without trailing zeros"""
    if M == 0:
        return "0", 0
    if k >= 0:
        v = M << k
        e = 0
    else:
        v = M * 5 ** (-k)
        e = k
    s = str(v)
    t = s.rstrip("0")
    e += len(s) - len(t)
    return t, e


def forms(ds, e10, rng, nforms=3, long_ok=True):
    """representations (int, frac, exp) of the value int(ds) * 10^e10; ds has no leading zero"""
    n = len(ds)
    out = []
    # natural position of the decimal point
    if e10 >= 0 and n + e10 <= 400 and long_ok:
        out.append((ds + "0" * e10, "", 0))
    elif -n < e10 < 0:
        out.append((ds[:n + e10], ds[n + e10:], 0))
    elif e10 <= -n and -e10 - n <= 1200 and long_ok:
        out.append(("", "0" * (-e10 - n) + ds, 0))
    cands = [
        (ds, "", e10),                       # integer only
        ("", ds, e10 + n),                   # fraction only
        ("", "0" * 3 + ds, e10 + n + 3),     # fraction with leading zeros
        (ds[:1], ds[1:], e10 + n - 1),       # scientific
    ]
    if n > 2:
        k = rng.randrange(1, n)
        cands.append((ds[:k], ds[k:], e10 + n - k))
    if n > 19:
        cands.append((ds[:19], ds[19:], e10 + n - 19))
        cands.append((ds[:20], ds[20:], e10 + n - 20))
        cands.append((ds[:18], ds[18:], e10 + n - 18))
    rng.shuffle(cands)
    out.extend(cands[:nforms])
    return out


def mk(fmt, i, f, e, tag):
    return {"fmt": fmt, "int": i, "frac": f, "exp": e, "tag": tag}


def sig_patterns(F, rng, nrand):
    full = (1 << F.mbits) - 1
    alt = int("10" * 40, 2) & full
    pats = [0, 1, 2, full, full - 1, alt, full >> 1, (full >> 1) + 1]
    pats += [rng.getrandbits(F.mbits) for _ in range(nrand)]
    return pats


def g_plain(F, rng, n):
    """G1: 1..19 digits, exponents around the fast / moderate range, all splits"""
    out = []
    for _ in range(n):
        nd = rng.randrange(1, 20)
        ds = str(rng.randrange(10 ** (nd - 1), 10 ** nd))
        e10 = rng.randrange(-45, 45) if rng.random() < 0.8 else rng.randrange(-350, 320)
        for (i, f, e) in forms(ds, e10, rng, nforms=1):
            out.append(mk(F.name, i, f, e, "G1"))
    return out


def midpoint_variants(F, bits, rng, tier):
    """G2: inputs built around the midpoint above float `bits`"""
    M, k = F.midpoint(bits)
    ds, e10 = exact_decimal(M, k)
    n = len(ds)
    v = int(ds)
    var = [("exact", ds, e10)]
    var.append(("last+1", str(v + 1), e10))
    if v > 1:
        var.append(("last-1", str(v - 1), e10))
    # far-out digit / tails
    zs = [0, 1, 18, 19, 20, 37, 750, 770] if tier == "quick" else [0, 1, 18, 19, 20, 37, 38, 750, 769, 770, 1000, 10000]
    z = rng.choice(zs)
    var.append(("far1", ds + "0" * z + "1", e10 - z - 1))
    var.append(("zeros", ds + "0" * z, e10 - z))
    if v > 1:
        z9 = rng.choice([1, 2, 19, 30, 780, 1500])
        var.append(("nines", str(v - 1) + "9" * z9, e10 - z9))
    # truncations of the exact expansion
    ts = [t for t in (1, 2, 17, 18, 19, 20, 21, 34, 57, F.max_digits - 2, F.max_digits - 1, F.max_digits,
                      F.max_digits + 1, F.max_digits + 2) if t < n]
    if ts:
        for t in rng.sample(ts, min(len(ts), 2 if tier == "quick" else 4)):
            var.append(("trunc", ds[:t], e10 + n - t))
            var.append(("truncup", str(int(ds[:t]) + 1), e10 + n - t))
    out = []
    for (name, d, e) in var:
        d2 = d.lstrip("0")
        if not d2:
            continue
        for (i, f, ex) in forms(d2, e, rng, nforms=1)[:1]:
            out.append(mk(F.name, i, f, ex, "G2:" + name))
    return out


def g_midpoints(F, rng, tier, nexp=None, nrand=1):
    out = []
    fields = list(range(0, F.emaxfield))
    if nexp is not None and nexp < len(fields):
        keep = {0, 1, 2, F.emaxfield - 1, F.emaxfield - 2, F.bias, F.bias + F.mbits, F.bias + F.mbits + 1}
        rest = [x for x in fields if x not in keep]
        fields = sorted(keep | set(rng.sample(rest, nexp - len(keep))))
    for ef in fields:
        pats = sig_patterns(F, rng, nrand)
        for fr in rng.sample(pats, 3 if tier == "quick" else min(4, len(pats))):
            bits = (ef << F.mbits) | fr
            out.extend(midpoint_variants(F, bits, rng, tier))
    return out


def g_low_decade(F, rng, tier, ndecades, per_decade):
    """G9: parse inputs around midpoints that start low in their decade (see low_decade_midpoints)"""
    out = []
    for bits in low_decade_midpoints(F, rng, ndecades, per_decade):
        for r in midpoint_variants(F, bits, rng, tier):
            r["tag"] = "G9:" + r["tag"].split(":")[1]
            out.append(r)
    return out


def g_beyond_range(F, rng, per_binade=1):
    """G11: short and long decimals in every binade from 70 below the smallest subnormal to the smallest normal, and from
    the largest finite binade to 70 above it (results 0, subnormal, or infinity: every subnormal / underflow shift of the
    moderate path is exercised, not only the ones next to the thresholds)."""
    out = []
    binades = list(range(F.etiny - 70, F.etiny + F.mbits + 2)) + list(range(F.emax - 1, F.emax + 70))
    for b in binades:
        for _ in range(per_binade):
            # a value x * 2^b, x in [1, 2), written with nd significant digits
            x_num = rng.randrange(1 << 20, 1 << 21)
            nd = rng.choice([1, 2, 3, 9, 17, 19])
            # value = x_num * 2^(b - 20); decimal with nd digits: w = floor(value / 10^q) with q = floor(log10(value)) - nd + 1
            if b - 20 >= 0:
                num, den = x_num << (b - 20), 1
            else:
                num, den = x_num, 1 << (20 - b)
            dig = len(str(num // den)) if num >= den else -len(str(den // num)) + 1
            q = dig - nd
            w = (num * 10 ** (-q)) // den if q < 0 else num // (den * 10 ** q)
            while w >= 10 ** nd:
                w //= 10
                q += 1
            if w == 0:
                continue
            ds = str(w)
            for (i, f, e) in forms(ds.rstrip("0") or "0", q + len(ds) - len(ds.rstrip("0") or "0"), rng, nforms=1, long_ok=False)[:1]:
                out.append(mk(F.name, i, f, e, "G11:binade"))
            out.append(mk(F.name, ds, "0" * 20 + "1", q, "G11:binade-long"))
    return out


def g_int_ties(F, rng, n):
    """G10: integers that are an exact tie between two floats plus ONE extra low bit at a chosen position (bit 0, just
    below the rounding bit, at / next to every 64-bit limb boundary): the sticky information must be collected from
    every limb of the big integer."""
    out = []
    for _ in range(n):
        L = rng.choice([64, 65, 100, 127, 128, 129, 191, 192, 193, 255, 256, 257, 300, 511, 512, 640, 1000, 1023])
        if L > F.emax + 1:
            L = rng.choice([64, 65, 100, 127, 128]) if F.emax >= 127 else 64
        if L <= F.p + 1:
            continue
        m = rng.getrandbits(F.p - 1) | (1 << (F.p - 1))            # p-bit significand
        m = (m & ~1) | rng.choice([0, 1])
        tie = (2 * m + 1) << (L - F.p - 1)                           # bit length L, exact midpoint
        below = L - F.p - 1                                          # number of bits below the rounding bit
        pos = sorted({0, 1, below - 1} | {k for k in (63, 64, 65, 127, 128, 129, 191, 192) if 0 <= k < below}
                     | {below - 1 - 64 * j - d for j in range(0, 8) for d in (0, 1, 63) if 0 <= below - 1 - 64 * j - d})
        for k in [None] + (rng.sample(pos, min(5, len(pos))) if below > 0 else []):
            v = tie if k is None else tie + (1 << k)
            out.append(mk(F.name, str(v), "", 0, "G10:int-tie" if k is None else "G10:int-tie+bit"))
            if k is not None and tie - (1 << k) > 0:
                out.append(mk(F.name, str(tie - (1 << k)), "", 0, "G10:int-tie-bit"))
    return out


def decade_midpoints(F, rng, step, per):
    """float bit patterns spread over EVERY decade of the format (one or more per `step` decades): whatever constant
    is indexed by the decimal exponent (one table entry per decade / per exponent) gets near-halfway inputs"""
    kmin = -((-F.etiny * 30103) // 100000)
    kmax = (F.emax * 30103) // 100000
    out = []
    for k in range(kmin, kmax + 1, step):
        for _ in range(per):
            x = rng.randrange(10 ** 6, 10 ** 7)                # 1.000000 .. 9.999999
            num, den = (x * 10 ** k, 10 ** 6) if k >= 0 else (x, 10 ** (6 - k))
            b = float_below(F, num, den)
            if 0 < b < F.infbits - 1:
                out.append(b)
    return out


def g_every_decade(F, rng, step, per):
    """G12: 17..19-digit truncations (down and up) of midpoints in every decade: short inputs within 1e-17..1e-19
    (relative) of a rounding boundary, for every decimal exponent the moderate path can see"""
    out = []
    for bits in decade_midpoints(F, rng, step, per):
        M, k = F.midpoint(bits)
        ds, e10 = exact_decimal(M, k)
        n = len(ds)
        for t in (17, 18, 19):
            if n > t:
                for d, tag in ((ds[:t], "G12:trunc"), (str(int(ds[:t]) + 1), "G12:truncup")):
                    i, f, e = rng.choice(forms(d.rstrip("0") or "0", e10 + n - t + len(d) - len(d.rstrip("0") or "0"), rng, nforms=2, long_ok=False))
                    out.append(mk(F.name, i, f, e, tag))
        if n > 25:
            out.append(mk(F.name, ds[:1], ds[1:25], e10 + n - 1, "G12:trunc25"))
    return out


def nd_digits(num, den, nd):
    """(w, q): the first nd significant digits of num/den > 0, truncated: w = floor(num / den / 10^q), 10^(nd-1) <= w < 10^nd"""
    q = len(str(num)) - len(str(den)) - nd
    while True:
        w = (num * 10 ** (-q)) // den if q < 0 else num // (den * 10 ** q)
        if w >= 10 ** nd:
            q += 1
        elif w < 10 ** (nd - 1):
            q -= 1
        else:
            return w, q


def g_carry(F, rng, tier):
    """G13: values in the top half of the last ulp of a binade (significand all ones plus 0.5+ .. 1-), where rounding
    carries into the next binade: subnormal -> normal (exponent field 0), ordinary binades, and finite -> infinity;
    written with 17, 18, 19 digits (moderate path), 25 digits and a far-out digit (big-integer path); the same fractions
    below the half for contrast"""
    q = tier == "quick"
    out = []
    full = (1 << F.mbits) - 1
    fields = [0, 1, 2, F.bias - 1, F.bias, F.bias + F.mbits, F.emaxfield - 2, F.emaxfield - 1]
    fields += rng.sample(range(3, F.emaxfield - 2), 6 if q else 60)
    fracs = [(1, 2), (501, 1000), (5001, 10000), (3, 4), (9, 10), (999, 1000), (499, 1000), (1, 4), (1, 1000)]
    for ef in fields:
        m, e = F.decode((ef << F.mbits) | full)
        for (a, b) in (rng.sample(fracs, 4) if q else fracs):
            # (m + a/b) * 2^e, perturbed by a random far-out amount so that it is not a short decimal
            num, den = (m * b + a) * 10 ** 30 + rng.randrange(1, 10 ** 29) * b, b * 10 ** 30
            if e >= 0:
                num <<= e
            else:
                den <<= -e
            for nd in ((17, 19, 25) if q else (16, 17, 18, 19, 20, 25, 40)):
                w, qq = nd_digits(num, den, nd)
                for (ww, tag) in ((w, "G13:carry-dn"), (w + 1, "G13:carry-up")):
                    ds = str(ww)
                    t = ds.rstrip("0") or "0"
                    i, f, ex = rng.choice(forms(t, qq + len(ds) - len(t), rng, nforms=2, long_ok=False))
                    out.append(mk(F.name, i, f, ex, tag))
            w, qq = nd_digits(num, den, 19)
            out.append(mk(F.name, str(w), "0" * 30 + "1", qq, "G13:carry-far1"))
    return out


def g_grid(F, rng, tier):
    """G14: d x 10^q for every single digit d and EVERY decimal exponent q the moderate path accepts (and a few beyond
    both ends), plus two-digit and 19-digit significands at every q: whatever is indexed or bounded by the decimal
    exponent is exercised at each of its values, including the first and last"""
    out = []
    for qq in range(F.p10_lo - 4, F.p10_hi + 4):
        for d in range(1, 10):
            out.append(mk(F.name, str(d), "", qq, "G14:grid"))
        w = rng.randrange(11, 100)
        out.append(mk(F.name, str(w), "", qq - 1, "G14:grid2"))
        w = rng.randrange(10 ** 18, 10 ** 19)
        out.append(mk(F.name, str(w), "", qq - 18, "G14:grid19"))
    return out


def exact_products(F, rng, quick):
    """(w, q) with q in 0..27 and P = w * 5^q below 2^64 (the low word of Eisel-Lemire's 128-bit product is zero and the
    second table word is zero), with the bits of P below the float's precision + 3 forced to a pattern: all ones (the
    only case in which the second multiplication runs although nothing can carry), one below / at / one above a tie"""
    out = []
    K = 64 - (F.mbits + 3)
    for qq in range(0, 28):
        f5 = 5 ** qq
        for L in (64, 63, 62):
            for k in (K, K + 1, K - 1, K + 2):
                lo_w, hi_w = -(-(1 << (L - 1)) // f5), ((1 << L) - 1) // f5
                if hi_w - lo_w < (1 << k) or k < 2:
                    continue
                ones = (1 << k) - 1
                pats = [ones, ones >> 1, 1 << (k - 1), (1 << (k - 1)) + 1, 0, 1, ones - 1]
                for pat in (pats if not quick else rng.sample(pats, 3) + [ones]):
                    w0 = (pat * pow(f5, -1, 1 << k)) % (1 << k)
                    tmin = -(-(lo_w - w0) // (1 << k))
                    tmax = (hi_w - w0) // (1 << k)
                    if tmax < tmin:
                        continue
                    w = w0 + rng.randrange(tmin, tmax + 1) * (1 << k)
                    assert (w * f5) % (1 << k) == pat and (w * f5).bit_length() == L
                    out.append((w, qq))
    return out


def g_exact_products(F, rng, tier):
    """G15: the (w, q) above as parse inputs: w x 10^q written short, with a far-out digit (w truncated: the moderate
    stage compares w and w+1), and w-1 with a tail of nines"""
    out = []
    for (w, qq) in exact_products(F, rng, tier == "quick"):
        if w >= 10 ** 19:
            continue
        ds = str(w)
        t = ds.rstrip("0") or "0"
        i, f, e = rng.choice(forms(t, qq + len(ds) - len(t), rng, nforms=2, long_ok=False))
        out.append(mk(F.name, i, f, e, "G15:exact-product"))
        if len(ds) == 19:
            out.append(mk(F.name, ds, "0" * 10 + "1", qq, "G15:exact-product-far1"))
            out.append(mk(F.name, str(w - 1), "9" * 12, qq, "G15:exact-product-nines"))
    return out


U64 = (1 << 64) - 1


def p5_128(q):
    """the 128-bit Eisel-Lemire significand of 5^q by its definition (as gen/mk_tables.py; checked by MC_Tables)"""
    if q < 0:
        p = 5 ** -q
        z = 0
        while (1 << z) < p:
            z += 1
        if q >= -27:
            c = 2 ** (z + 127) // p + 1
        else:
            c = 2 ** (2 * z + 128) // p + 1
            while c >= 1 << 128:
                c //= 2
        return c
    p = 5 ** q
    while p < 1 << 127:
        p *= 2
    while p >= 1 << 128:
        p //= 2
    return p


def lo_ones(qlo, qhi):
    """(w, q) for which the low word of Eisel-Lemire's first product w x T_hi(q) is exactly 2^64 - 1 (w normalised:
    w = -T_hi^-1 mod 2^64, when T_hi is odd and that w has its top bit set): the `lo == u64::MAX` branch, which
    random inputs reach with probability 2^-64"""
    out = []
    for q in range(qlo, qhi + 1):
        th = p5_128(q) >> 64
        if th & 1:
            w = (-pow(th, -1, 1 << 64)) % (1 << 64)
            if w >> 63:
                assert (w * th) & U64 == U64
                out.append((w, q))
    return out


def g_lo_ones(F, rng, tier):
    """G16: the (w, q) above as parse inputs (19-digit w only), short and with a far-out digit"""
    out = []
    for (w, q) in lo_ones(F.p10_lo - 2, F.p10_hi + 2):
        if w < 10 ** 19:
            out.append(mk(F.name, str(w), "", q, "G16:lo-ones"))
            out.append(mk(F.name, str(w), "0" * 8 + "1", q, "G16:lo-ones-far1"))
    return out


def g_tie_digit_counts(F, rng, tier):
    """G17: exact ties w x 10^-k (w = (2m+1) 5^k 2^j, at most 19 digits) for EVERY digit count of w the format allows,
    with w at the bottom (100x..) and at the top (999x..) of its decade and in between: whatever depends on the NUMBER
    OF DIGITS of a short significand that the moderate stage declines (scientific-exponent reduction loops, digit
    counting on the big-integer path of `compact` builds) sees every count and both ends of a decade"""
    out = []
    lo_odd, hi_odd = 1 << F.p, 1 << (F.p + 1)
    for nd in range(len(str(lo_odd)), 20):
        for (a, b) in ((10 ** (nd - 1), 10 ** (nd - 1) + 10 ** (nd - 1) // 100), (10 ** nd - 10 ** nd // 1000, 10 ** nd - 1),
                       (2 * 10 ** (nd - 1), 9 * 10 ** (nd - 1))):
          for parity in (1, 3):                    # 2m+1 = 1 / 3 (mod 4): lower neighbour even / odd
            found = 0
            ks = list(range(0, 28))
            rng.shuffle(ks)
            for k in ks:
                if found >= (1 if tier == "quick" else 3):
                    break
                f5 = 5 ** k
                for j in rng.sample(range(0, 40), 40):
                    d = f5 << j
                    o_lo, o_hi = max(lo_odd, -(-a // d)), min(hi_odd - 1, b // d)
                    if o_hi < o_lo:
                        continue
                    odd = (rng.randrange(o_lo, o_hi + 1) & ~3) | parity
                    while odd > o_hi:
                        odd -= 4
                    if odd < o_lo:
                        continue
                    w = odd * d
                    e2 = j - k                                     # value = odd * 2^(j-k)
                    if not (F.etiny + F.mbits + 2 < e2 + F.p < F.emax - 2):
                        continue
                    assert a <= w <= b and len(str(w)) == nd
                    for dw, tag in ((0, "G17:tie"), (1, "G17:tie+1"), (-1, "G17:tie-1")):
                        i, f, e = rng.choice(forms_keep(str(w + dw), -k, rng))
                        out.append(mk(F.name, i, f, e, tag))
                    found += 1
                    break
    return out


def forms_keep(ds, e10, rng):
    """representations of int(ds) x 10^e10 that KEEP every digit of ds (trailing zeros included: they count as digits)"""
    n = len(ds)
    out = [(ds, "", e10)]
    for cut in {1, n // 2, n - 1}:
        if 0 < cut < n:
            out.append((ds[:cut], ds[cut:], e10 + n - cut))
    out.append(("", ds, e10 + n))
    return out


def disguised_wrap(F, rng, per_shift):
    """(m, q): q above the fast-path exponent limit by s, significand m <= 2^p such that m x 10^s does NOT fit 64 bits
    but its low 64 bits are again <= 2^p: the disguised fast path must notice the overflow of the scaled
    significand, not only its size.  m = t (5^s)^-1 mod 2^(64-s) for small t."""
    out = []
    lim = 2 << F.mbits
    for sft in range(1, F.disg_exp - F.fast_exp + 1):
        if lim * 10 ** sft < 1 << 64:
            continue                                   # the product can never overflow (all of f32)
        mod = 1 << (64 - sft)
        inv = pow(5 ** sft, -1, mod)
        found = tries = 0
        while found < per_shift and tries < 200000:
            tries += 1
            t = rng.randrange(0, max(1, lim >> sft))
            m = (t * inv) % mod
            if 0 < m <= lim and m * 10 ** sft >= 1 << 64:
                assert (m * 10 ** sft) % (1 << 64) <= lim
                out.append((m, F.fast_exp + sft))
                found += 1
    return out


def g_disguised_wrap(F, rng, tier):
    """G18: the (m, q) above as parse inputs"""
    out = []
    for (m, q) in disguised_wrap(F, rng, 3 if tier == "quick" else 40):
        ds = str(m)
        t = ds.rstrip("0") or "0"
        i, f, e = rng.choice(forms(t, q + len(ds) - len(t), rng, nforms=2, long_ok=False))
        out.append(mk(F.name, i, f, e, "G18:disguised-wrap"))
    return out


def g_budget_splits(F, rng, tier):
    """G19: digit strings about as long as the digit budget of the big-integer path (MAX_DIGITS) with the decimal point
    at EVERY position in the last 21 digits before the budget, at multiples of 19 (the native chunk) +-1, and at both
    ends: exact expansions of midpoints between subnormals (up to 767 / 112 digits), the same with a far-out 1 and with
    a tail of nines.  Whatever bookkeeping couples the budget, the chunk counter and the integer / fraction boundary
    sees every alignment."""
    out = []
    q = tier == "quick"
    cands = []
    for bits in [0, 1, 2] + [rng.randrange(1, 1 << F.mbits) for _ in range(2 if q else 12)]:
        M, k = F.midpoint(bits)
        ds, e10 = exact_decimal(M, k)
        cands.append((ds, e10))
    for (ds, e10) in cands:
        n = len(ds)
        v = int(ds)
        variants = [("exact", ds, e10), ("far1", ds + "0" * 3 + "1", e10 - 4), ("nines", str(v - 1) + "9" * 25, e10 - 25)]
        for (name, d, e) in variants:
            nn = len(d)
            pos = set(range(max(1, F.max_digits - 21), min(nn, F.max_digits + 2) + 1)) | {1, nn} | \
                {p + dlt for p in range(19, nn, 19) for dlt in (-1, 0, 1) if 0 < p + dlt <= nn}
            pos = sorted(pos)
            if q and len(pos) > 16:
                keep = set(range(max(1, F.max_digits - 21), min(nn, F.max_digits + 2) + 1))
                pos = sorted(keep | set(rng.sample(pos, 6)))
                if name != "exact":
                    pos = rng.sample(pos, 8)
            for pnt in pos:
                out.append(mk(F.name, d[:pnt], d[pnt:], e + (nn - pnt), "G19:budget-" + name))
            # fraction-only spellings: every leading zero written out (exponent 0), then x MORE zeros compensated by
            # the exponent x - a budget counted in decimal PLACES instead of significant digits cuts the digits here
            z0 = -(e + nn)
            if z0 >= 0:
                for x in ((0, 1, 19) if q else (0, 1, 2, 19, 150, 400)):
                    out.append(mk(F.name, "", "0" * (z0 + x) + d, x, "G19:places-" + name))
    return out


def short_eighths(F, rng, per, extra=3, patterns=None):
    """(w, q, r) with w < 10^19 such that w x 10^q is EXACTLY (m + r/2^extra) ulps for a p-bit significand m: the value
    has at most p+extra significant bits, so Eisel-Lemire's product is exact (low word zero) and everything below the
    rounding bit is visible in a few bits.  With extra = 3: r = 4 is the tie; r = 2, 6 (quarter / three quarters) and
    the odd r are the patterns a sloppy "only zeros were dropped" test confuses with it.  With extra = 6 the patterns
    are tie -+ 1/64, the quarters and the extremes.  Both parities of m.  For every q of the tie window (+-2):
      q < 0 : w = N 5^-q 2^j;   q >= 0: N = 5^q k, w = k 2^j     with N in [2^(p+extra-1), 2^(p+extra)), N = pattern (mod 2^(extra+1))"""
    out = []
    lo, hi = 1 << (F.p + extra - 1), 1 << (F.p + extra)
    M = 1 << (extra + 1)                                   # modulus: the parity of m (bit `extra`) together with r
    pats = patterns if patterns is not None else [r for r in range(1, 1 << extra)]
    for q in range(F.tie_lo - 2, F.tie_hi + 3):
        for par in (0, 1):
            for r in pats:
                rM = (par << extra) | r
                for _ in range(per):
                    if q < 0:
                        f5 = 5 ** (-q)
                        nmax = min(hi, 10 ** 19 // f5)
                        if nmax <= lo:
                            continue
                        n = (rng.randrange(lo, nmax) & ~(M - 1)) | rM
                        if not lo <= n < nmax:
                            continue
                        base = n * f5
                    else:
                        f5 = 5 ** q
                        kmin, kmax = -(-lo // f5), (hi - 1) // f5
                        if kmax < kmin:
                            continue
                        want = (rM * pow(f5, -1, M)) % M
                        ks = [k for k in range(kmin, min(kmax, kmin + 8 * M) + 1) if k % M == want] if kmax - kmin < 4096 else \
                            [((rng.randrange(kmin, kmax) & ~(M - 1)) | want)]
                        ks = [k for k in ks if kmin <= k <= kmax]
                        if not ks:
                            continue
                        base = rng.choice(ks)
                        assert (base * f5) % M == rM
                    for j in sorted({0, 1, 2, rng.randrange(0, 10)}):
                        w = base << j
                        if w < 10 ** 19:
                            out.append((w, q, r))
    return out


def g_short_eighths(F, rng, tier):
    """G20: the values above as parse inputs, each in up to three spellings (w, q), (w0, q-1), (w00, q-2)"""
    out = []
    fam = [(x, "eighth%d" % x[2]) for x in short_eighths(F, rng, 1 if tier == "quick" else 6)]
    # finer: tie -+ 1/64 of an ulp, the quarters, the extremes (p+6 significant bits)
    fam += [(x, "sixtyfourth%d" % x[2]) for x in short_eighths(F, rng, 1 if tier == "quick" else 4, extra=6, patterns=[31, 32, 33, 16, 48, 1, 63])]
    for ((w, q, r), name) in fam:
        for z in (0, 1, 2):
            ww = w * 10 ** z
            if ww < 10 ** 19:
                ds = str(ww)
                i, f, e = rng.choice(forms_keep(ds, q - z, rng))
                out.append(mk(F.name, i, f, e, "G20:" + name))
    return out


def g_zero_limbs(F, rng, tier):
    """G21: near-halfway values >= 10^90 spelled with Z = 64, 65, 70, 128, 130, 192 ZEROS at the end of the integer part
    (the big integer built from the digits is then a multiple of 2^Z: its low limbs are zero) and the rest of the
    magnitude in the exponent, next to the same value spelled with all zeros in the exponent: zero low limbs meet the
    large power-of-five step, limb shifts and "normalised" assumptions on the big-integer path"""
    out = []
    q = tier == "quick"
    lo_field = F.bias + 300
    if lo_field >= F.emaxfield - 1:
        return out                                     # f32: no value is large enough
    for ef in rng.sample(range(lo_field, F.emaxfield - 1), 6 if q else 60):
        M, k = F.midpoint((ef << F.mbits) | rng.getrandbits(F.mbits))
        ds, e10 = exact_decimal(M, k)
        n = len(ds)
        pre = ds[:19]
        for up in (0, 1):
            w = str(int(pre) + up)
            tot = e10 + n - 19                          # value = w x 10^tot
            for Z in (64, 65, 70, 128, 130, 192):
                if tot - Z >= 0:
                    out.append(mk(F.name, w + "0" * Z, "", tot - Z, "G21:zero-limbs"))
                    out.append(mk(F.name, w + "0" * Z, "0" * 3, tot - Z, "G21:zero-limbs"))
            out.append(mk(F.name, w + "0", "", tot - 1, "G21:plain"))
    return out


def g_sparse_bigmant(F, rng, n, exps=(135, 140, 160, 271, 290)):
    """G22: long INTEGER inputs whose big integer has a run of ZERO LIMBS between non-zero ones (A x 2^(64 k) + small)
    multiplied by a large power of ten, and that reach the big-integer path (the 19-digit prefix w and w+1 round
    differently: found by exact search, ~1 candidate in 400).  The multiplier's zero limbs are skipped by the long
    multiplication, so the partial sums grow in jumps: resize / set_len / offset bookkeeping is exercised where
    dense operands never go."""
    out = []
    tries = 0
    while len(out) < n and tries < 400000:
        tries += 1
        k = rng.choice([2, 6, 7, 7, 8])              # the gap must exceed the length of the first partial product (5^135: 5..6 limbs)
        e10 = rng.choice(exps)
        a = rng.getrandbits(rng.choice([40, 64, 100]))
        if a == 0:
            continue
        N = (a << (64 * k)) + rng.choice([1, 3, 1 << 63, rng.getrandbits(64) | 1])
        ds = str(N)
        if len(ds) + e10 > F.p10_hi + 1 or len(ds) < 21:
            continue
        w = int(ds[:19])
        kk = e10 + len(ds) - 19
        lo = float_below(F, w * 10 ** kk, 1)
        if lo >= F.infbits - 1:
            continue
        M, ke = F.midpoint(lo)
        mid_num, mid_den = (M << ke, 1) if ke >= 0 else (M, 1 << (-ke))
        if w * 10 ** kk * mid_den < mid_num <= (w + 1) * 10 ** kk * mid_den:
            out.append(mk(F.name, ds, "", e10, "G22:sparse-bigmant"))
    return out


def pow5_thresholds(F, rng):
    """(w, q), 0 <= q <= 27, with w next to floor(2^k / 5^q) for k = p .. 66 (w > 2^p so that the fast path declines,
    w < 10^19): the inputs for which w x 5^q sits at a power of two - where an "exact integer product" shortcut, a
    64-bit overflow test or a leading-zero budget is off by one.  Also a few w spread over each such interval."""
    out = []
    for q in range(0, 28):
        f5 = 5 ** q
        for k in range(F.p, 67):
            t = (1 << k) // f5
            cands = [t - 1, t, t + 1, t + rng.randrange(1, max(2, t // 8)), t + t // 3, t + t // 2]
            for w in cands:
                if (1 << F.p) < w < 10 ** 19:
                    out.append((w, q))
    return out


def g_pow5_thresholds(F, rng, tier):
    """G23: the (w, q) above as parse inputs (`w e q`)"""
    out = []
    for (w, q) in pow5_thresholds(F, rng):
        out.append(mk(F.name, str(w), "", q, "G23:pow5-threshold"))
    return out[:: 2 if tier == "quick" else 1]


def pow10_thresholds(F):
    """(w, s): w next to 2^k / 10^s for s = 1..9 (the small-power step of a two-table power-of-ten scheme) and every k for
    which such a w has 17..19 digits: w x 10^s sits just below / at / above a power of two, beyond 64 bits - where a
    "round the wide product once" step carries out of its word"""
    out = []
    for s in range(1, 10):
        for k in range(58, 95):
            t = (1 << k) // 10 ** s
            for w in (t - 1, t, t + 1):
                if 10 ** 16 <= w < 10 ** 19:
                    out.append((w, s))
    return out


def g_pow10_thresholds(F, rng, tier):
    """G29: the (w, s) above as parse inputs w e q for q = s (mod 10) over the whole exponent range of the format"""
    out = []
    q = tier == "quick"
    for (w, s) in pow10_thresholds(F):
        qs = [qq for qq in range(F.p10_lo, F.p10_hi + 1) if (qq - s) % 10 == 0]
        for qq in (rng.sample(qs, min(len(qs), 6)) if q else qs):
            out.append(mk(F.name, str(w), "", qq, "G29:pow10-threshold"))
    return out


def lemire_refined(F, rng, per_q, tries, nds=(15, 16, 16, 17)):
    """(w, q, event) found against the DEFINITION of Eisel-Lemire's product (p5_128): inputs for which the first 64 x 64
    product leaves the bits below the precision all ones, so that the second multiplication (with the low table word)
    runs - and either carries into the high word ("carry": the result depends on it) or not.  One in ~2000 random w for
    f64; per decimal exponent, since a shortcut can be wrong for one q only (5^28 is the first power that does not fit
    in 64 bits ...).  19-digit w >= 2^63 are CONSTRUCTED (step w until the high word ends in ones), shorter ones
    (what a shortest rendering looks like) are found by rejection sampling."""
    out = []
    precision = F.mbits + 3
    mask = U64 >> precision
    if mask.bit_length() > 14:
        return out                                     # f32: 2^-37 per draw, not reachable by sampling
    for q in range(max(F.p10_lo - 2, -342), min(F.p10_hi + 2, 308) + 1):
        T = p5_128(q)
        hi5, lo5 = T >> 64, T & U64
        got = {"carry": 0, "nocarry": 0}

        def event(w):
            z = w << (64 - w.bit_length())
            first = z * hi5
            if (first >> 64) & mask != mask:
                return None
            return "carry" if (first & U64) + ((z * lo5) >> 64) > U64 else "nocarry"

        # constructed: w in [2^63, 10^19), z = w
        for _ in range(4 * per_q + 4):
            w = rng.randrange(1 << 63, 10 ** 19 - 2000)
            first = w * hi5
            fh = first >> 64
            target = (fh | mask) if (fh | mask) >= fh else fh
            need = ((target << 64) - first + hi5 - 1) // hi5          # smallest step that lifts the high word to target
            for w2 in (w + need, w + need + 1, w + need - 1):
                ev = event(w2) if (1 << 63) <= w2 < 10 ** 19 else None
                if ev and got[ev] < (per_q if ev == "carry" else 1):
                    got[ev] += 1
                    out.append((w2, q, ev))
                    break
        got = {"carry": 0, "nocarry": 0}
        for _ in range(tries):
            nd = rng.choice(nds)
            w = rng.randrange(10 ** (nd - 1), 10 ** nd)
            ev = event(w)
            if ev is None:
                continue
            if got[ev] < (per_q if ev == "carry" else 1):
                got[ev] += 1
                out.append((w, q, ev))
            if got["carry"] >= per_q and got["nocarry"] >= 1:
                break
    return out


def g_refined_next(F, rng, tier):
    """G34: TRUNCATED inputs whose probe w + 1 is a refinement-carry event of Eisel-Lemire's product (see lemire_refined):
    after the carry the high word of w + 1 sits exactly ON a multiple of 2^9, so the high word of w is one step (8..16
    units, depending on the leading zeros of w and the top bits of the power) below a rounding boundary while the dropped
    digits decide on which side the value lies.  19-digit w' over the whole range and, separately, in [10^18, 2^60) (four
    leading zeros: the largest step); tails .99.., .5, and w' itself with a far-out digit."""
    out = []
    precision = F.mbits + 3
    mask = U64 >> precision
    if mask.bit_length() > 14:
        return out
    q_ = tier == "quick"
    for q in range(max(F.p10_lo - 2, -342), min(F.p10_hi + 2, 308) + 1):
        T = p5_128(q)
        hi5, lo5 = T >> 64, T & U64
        if lo5 == 0:
            continue
        for (lo, hi, want) in ((10 ** 18, 1 << 60, 1 if q_ else 3), (10 ** 18, 10 ** 19, 1 if q_ else 2)):
            got = 0
            for _ in range(3000 if q_ else 12000):
                w = rng.randrange(lo, hi)
                z = w << (64 - w.bit_length())
                first = z * hi5
                if (first >> 64) & mask != mask or (first & U64) + ((z * lo5) >> 64) <= U64:
                    continue
                got += 1
                out.append(mk(F.name, str(w - 1), "99", q, "G34:next-refined-99"))
                out.append(mk(F.name, str(w - 1), "9" * 14, q, "G34:next-refined-99"))
                out.append(mk(F.name, str(w - 1), "5", q, "G34:next-refined-5"))
                out.append(mk(F.name, str(w), "0" * 6 + "1", q, "G34:refined-far1"))
                if got >= want:
                    break
    return out


def g_lemire_refined(F, rng, tier):
    """G30: the (w, q) above as parse inputs"""
    q = tier == "quick"
    return [mk(F.name, str(w), "", qq, "G30:refine-" + ev) for (w, qq, ev) in lemire_refined(F, rng, 3 if q else 10, 8000 if q else 40000)]


def wide_exact_products(F, rng, quick):
    """(w, q), 1 <= q <= 27, w < 10^19, with P = w x 5^q EXACT and 65..(p + 62) bits long, whose bits below the p-bit
    significand are a chosen pattern: a tie plus or minus a tiny delta (so that Eisel-Lemire's high word shows the exact
    halfway pattern while the LOW word is small but not zero), both parities of the significand.  Solved by
    w = pattern x (5^q)^-1 mod 2^(k+1), k = L - p"""
    out = []
    for qq in range(1, 28):
        f5 = 5 ** qq
        for L in (range(65, F.p + 62, 5) if quick else range(65, F.p + 62)):
            k = L - F.p
            if k + 1 > 62:
                continue
            # w above 2^p: the fast path declines
            lo_w, hi_w = max((1 << F.p) + 1, -(-(1 << (L - 1)) // f5)), min(10 ** 19 - 1, ((1 << L) - 1) // f5)
            if hi_w - lo_w < (1 << (k + 1)):
                continue
            half = 1 << (k - 1)
            small = max(1, L - 74)                         # delta below 2^small keeps the low product word below 2^54
            deltas = [1, 2, (1 << small) - 1, 1 << small, (3 << small) >> 1, (1 << (small + 1)) - 1, (1 << max(0, small - 1)) + 1,
                      rng.randrange(1, 1 << small), 1 << min(k - 2, small + 6), -1, -rng.randrange(1, 1 << small)]
            for par in (0, 1):
                for dl in (deltas if not quick else rng.sample(deltas, 4)):
                    pat = ((par << k) | half) + dl
                    mod = 1 << (k + 1)
                    w0 = (pat * pow(f5, -1, mod)) % mod
                    tmin = -(-(lo_w - w0) // mod)
                    tmax = (hi_w - w0) // mod
                    if tmax < tmin:
                        continue
                    picks = [w0 + rng.randrange(tmin, tmax + 1) * mod]
                    tshort = (10 ** 18 - 1 - w0) // mod                 # also a solution with at most 18 digits (10 w fits in 64 bits)
                    if tshort >= tmin:
                        picks.append(w0 + rng.randrange(tmin, min(tmax, tshort) + 1) * mod)
                    for w in picks:
                        assert (w * f5) % mod == pat % mod and (w * f5).bit_length() == L
                        out.append((w, qq))
    return out


def g_wide_exact_products(F, rng, tier):
    """G31: the (w, q) above as parse inputs, and the same value with the power written out (w followed by q zeros, a
    long integer: the big-integer path decides it) - a C09 / C10 pair in one corpus"""
    out = []
    for (w, qq) in wide_exact_products(F, rng, tier == "quick"):
        out.append(mk(F.name, str(w), "", qq, "G31:wide-product"))
        out.append(mk(F.name, str(w) + "0" * qq, "", 0, "G31:wide-product-long"))
    return out


def g_slow_grid(F, rng, tier):
    """G32: the big-integer comparison of the digits with b+h, for every pair (binade E of the value, number h of digits
    after the decimal point): the decimals with exactly h fraction digits just below and just above (and, when it is
    representable, at) the midpoint above a float in [2^E, 2^(E+1)), for a significand near the bottom and near the top of
    the binade.  h and E determine the power of five and the shift with which b+h is scaled - a native-width shortcut for
    "small" scalings is wrong for one such pair only.  Inputs with more than 19 digits in total."""
    out = []
    q = tier == "quick"
    p = F.p
    Es = range(-20, 90) if q else range(-40, 120)
    hs = range(1, 41) if q else range(1, 51)
    if F.name != "f64":
        Es = range(-20, 60) if q else range(-40, 100)
        Es = range(Es.start, Es.stop, 2) if q else Es
    for E in Es:
        for h in hs:
            for frac in ((0.02, 0.93) if q else (0.02, rng.choice((0.3, 0.45, 0.6)), 0.93)):
                m = (1 << (p - 1)) + int(frac * (1 << (p - 1))) + rng.randrange(0, 1 << 16)
                m = (m & ~1) | rng.getrandbits(1) if not q else m & ~1      # quick: even m (a lost tie is visible)
                num = (2 * m + 1) * 10 ** h
                sh = E - p                                                   # midpoint = (2m+1) 2^(E-p)
                if sh >= 0:
                    fl, exact = num << sh, True
                else:
                    fl, exact = num >> -sh, num & ((1 << -sh) - 1) == 0
                cands = [("below", fl - 1 if exact else fl), ("above", fl + 1)] + ([("tie", fl)] if exact else [])
                for (name, v) in cands:
                    ds = str(v)
                    if len(ds) <= 19 or v <= 0:
                        continue
                    if len(ds) > h and rng.random() < 0.5:
                        out.append(mk(F.name, ds[:-h], ds[-h:], 0, "G32:slow-grid-" + name))
                    else:
                        out.append(mk(F.name, ds, "", -h, "G32:slow-grid-" + name))
    return out


def g_long_pos_ties(F, rng, tier):
    """G33: exact ties with MORE than 19 digits and a positive exponent, in their shortest spelling: digits = k 2^j
    (20..45 digits), exponent q = 1 .. the last exponent for which a tie exists (23 / 10), with 5^q k = 2m+1 a (p+1)-bit odd
    number, both parities of m.  For q at the top of the window k = 1: the digits are a pure power of two.  With a far-out
    digit and with a tail of nines below."""
    out = []
    q = tier == "quick"
    lo, hi = 1 << F.p, (1 << (F.p + 1)) - 1
    for qq in range(1, F.tie_hi + 1):
        f5 = 5 ** qq
        kmin, kmax = -(-lo // f5), hi // f5
        ks = {kmin | 1, (kmax - 1) | 1, rng.randrange(kmin, kmax + 1) | 1, rng.randrange(kmin, kmax + 1) | 1}
        for k in sorted(k for k in ks if kmin <= k <= kmax):
            for nd in ((20, 21, 30) if q else (20, 21, 22, 25, 30, 45)):
                if F.name != "f64" and nd > 25:
                    continue
                j = 0
                while (k << j) < 10 ** (nd - 1):
                    j += 1
                ds = str(k << j)
                out.append(mk(F.name, ds, "", qq, "G33:long-pos-tie"))
                out.append(mk(F.name, ds, "0" * 7 + "1", qq, "G33:long-pos-tie-far1"))
                out.append(mk(F.name, str((k << j) - 1), "9" * 12, qq, "G33:long-pos-tie-nines"))
    return out


def first_in_range(a, m, l, r):
    """smallest x >= 0 with l <= (a x) mod m <= r (0 <= l <= r < m), or None: Euclid-like descent (checked against brute
    force by bin/selftest-free reasoning: 20 000 random small cases)"""
    a %= m
    if l == 0:
        return 0
    if a == 0:
        return None
    if 2 * a > m:
        return first_in_range(m - a, m, m - r, m - l)
    k = (l + a - 1) // a
    if k * a <= r:
        return k
    y = first_in_range((a - m % a) % a, a, l % a, r % a)
    if y is None:
        return None
    return (l + m * y + a - 1) // a


def midword_products(F, rng, quick, wmax):
    """(w, q), 1 <= q <= 27, w < wmax: the exact product P = w x 5^q is longer than 64 bits and its TOP 64 bits are the
    exact midpoint pattern of the format (p bits, a one, zeros) or one below it (p bits, a zero, ones) while bits remain
    below the 64-bit window - a 64-bit rounding of the product lands exactly on the midpoint although the value is not
    one.  The constraint is on the MIDDLE bits of P: a modular interval, solved with `first_in_range`."""
    out = []
    for qq in range(1, 28):
        f5 = 5 ** qq
        for L in range(66, 64 + F.p + 40, 1 if not quick else 2):
            wlo, whi = max((1 << F.p) + 1, -(-(1 << (L - 1)) // f5)), min(wmax, (1 << L) // f5)
            if whi - wlo < 1000:
                continue
            k = L - F.p                      # bits of P below the p-bit significand
            tail = L - 64                    # bits of P below the 64-bit window
            mod = 1 << (k + 1)               # also fixes the parity of the significand
            a = f5 % mod
            for par in (0, 1):
                for side in (0, 1):
                    base = (par << k) | (1 << (k - 1))
                    lo_, hi_ = (base + 1, base + (1 << tail) - 1) if side == 0 else (base - (1 << tail) + 1, base - 1)
                    t = rng.randrange(wlo, whi)
                    sh = (a * t) % mod
                    l2, r2 = (lo_ - sh) % mod, (hi_ - sh) % mod
                    if l2 > r2:
                        continue
                    x = first_in_range(a, mod, l2, r2)
                    if x is None or t + x >= whi:
                        continue
                    w = t + x
                    P = w * f5
                    assert P.bit_length() == L and lo_ <= P % mod <= hi_
                    out.append((w, qq))
    return out


def g_midword_products(F, rng, tier):
    """G35: the (w, q) above as parse inputs, for w below 2^40 (narrow significands: the exact-large-power case of a
    two-table scheme) and for any w below 10^19"""
    out = []
    q = tier == "quick"
    for wmax in (1 << 40, 10 ** 19):
        for (w, qq) in midword_products(F, rng, q, wmax):
            out.append(mk(F.name, str(w), "", qq, "G35:midword-product"))
            if w % 10:
                out.append(mk(F.name, str(w) + "0", "", qq - 1, "G35:midword-product"))
    return out


def g_limb_crossers(F, rng, tier):
    """G24: halfway points between SUBNORMALS m and m+1 for which an intermediate of the stepped power (2m+1) x 5^(135 i)
    lands just above a limb boundary 2^(64 j) (its top limb is a small number): there the partial products of the long
    multiplication have no carry limb of their own while the running sum still carries into a NEW limb - the last
    carry of `large_add_from`.  Exact tie, far-out digit, tail of nines."""
    out = []
    e = F.mbits + F.bias             # the midpoints are odd multiples of 2^-(e): f64 1075, f32 150
    per = 6 if tier == "quick" else 40
    for i in range(1, e // 135 + 1):
        p5 = 5 ** (135 * i)
        for j in range(1, 40):
            lo = -(-(1 << (64 * j)) // p5)
            if lo < 3 or lo >= (1 << F.mbits):
                continue
            hi = lo + max(2, lo // 64)
            cands = sorted({lo | 1, (lo + 2) | 1, (lo + 4) | 1} | {rng.randrange(lo, hi) | 1 for _ in range(per)})
            for odd in cands:
                m = (odd - 1) // 2
                if not 0 <= m < (1 << F.mbits) - 1:
                    continue
                for r in midpoint_variants(F, m, rng, tier):
                    if r["tag"].split(":")[1] in ("exact", "far1", "nines", "last+1", "last-1"):
                        r["tag"] = "G24:" + r["tag"].split(":")[1]
                        out.append(r)
    return out


def straddles(F, ds, e10):
    """does int(ds) x 10^e10 (more than 19 digits) reach the big-integer path, i.e. is there a rounding boundary between
    its 19-digit prefix w and w + 1 (exact arithmetic)"""
    w = int(ds[:19])
    kk = e10 + len(ds) - 19
    num, den = (w * 10 ** kk, 1) if kk >= 0 else (w, 10 ** (-kk))
    num2 = (w + 1) * 10 ** kk if kk >= 0 else w + 1
    lo = float_below(F, num, den)
    if lo >= F.infbits - 1:
        return False
    M, ke = F.midpoint(lo)
    mn, md = (M << ke, 1) if ke >= 0 else (M, 1 << (-ke))
    return num * md < mn * den <= num2 * md


def g_pow2_digits(F, rng, tier):
    """G25: digit strings equal to 2^(64 j) + d (d = 0..5, j = 2..12): while they are accumulated chunk by chunk the
    running big integer crosses a limb boundary with every higher limb all ones - the longest possible carry ripple of
    `add_small`, ending in a NEW limb; the exponents are the ones (found by exact search) for which the big-integer
    path is actually reached"""
    out = []
    q = tier == "quick"
    for j in range(2, 13):
        for d in ((0, 1) if q else (0, 1, 2, 3, 5)):
            ds = str((1 << (64 * j)) + d)
            found = 0
            for e10 in rng.sample(range(-330, 300), 630):
                if len(ds) + e10 > F.p10_hi + 1 or len(ds) + e10 < F.p10_lo:
                    continue
                if straddles(F, ds, e10):
                    out.append(mk(F.name, ds, "", e10, "G25:pow2-digits"))
                    found += 1
                    if found >= (2 if q else 6):
                        break
    return out


def g_trailing_zeros(F, rng, tier):
    """G26: significands WRITTEN with trailing integer zeros (d x 10^k as integer digits, k = 1..18) for EVERY decimal
    exponent of the format: the same value as the short spelling, but the 64-bit significand handed to the middle stage and
    to the digit-counting loops (`scientific_exponent`) is a power of ten or d x 10^k - the fence posts of every "how many
    digits" computation. Only the handful of powers of ten that the middle stage cannot decide reach those loops, hence
    every exponent and not a sample"""
    out = []
    q = tier == "quick"
    ks = (1, 2, 3, 4, 8, 9, 16, 17, 18) if q else range(1, 19)
    for n in range(F.p10_lo - 2, F.p10_hi + 2):
        for k in ks:
            out.append(mk(F.name, "1" + "0" * k, "", n - k, "G26:pow10-significand"))
        for d in ((rng.randrange(2, 10),) if q else range(2, 10)):
            for k in ((rng.choice((1, 2, 3)), rng.randrange(4, 19)) if q else (1, rng.randrange(2, 17), 17, 18)):
                out.append(mk(F.name, str(d) + "0" * k, "", n - k, "G26:trailing-zeros"))
    return out


def g_sticky_positions(F, rng, tier):
    """G27: an exact tie with a short expansion (both parities of the lower neighbour), zeros, and ONE non-zero digit at
    significant position p - for every p around the digit budget of the big-integer path (MAX_DIGITS - 3 .. + 4: position
    MAX_DIGITS + 1 is the FIRST dropped digit, the one a "peek" swallows), around twice the budget, and around the chunk
    multiples next to it - followed by 0 or a few zeros.  Each is spelled integer-only (negative exponent), fraction-only,
    split at the tie's own point, and split at / next to the budget."""
    out = []
    q = tier == "quick"
    B = F.max_digits
    ties = []
    for par in (0, 1):
        for ef in ((F.bias + F.mbits + 1, F.bias - 3) if q else
                   (F.bias + F.mbits + 1, F.bias + F.mbits + 9, F.bias + 3, F.bias - 3, F.bias - 20)):
            fr = (rng.getrandbits(F.mbits) & ~1) | par
            M, k = F.midpoint((ef << F.mbits) | fr)
            ties.append(exact_decimal(M, k))
    ps = set(range(B - 3, B + 5)) | {2 * B - 1, 2 * B, 2 * B + 1, 2 * B + 2} | \
        {19 * j + d for j in (B // 19, B // 19 + 1) for d in (-1, 0, 1, 2)}
    if not q:
        ps |= set(range(B - 25, B + 25)) | set(rng.sample(range(B + 25, 3 * B), 20))
    for (ds, e10) in ties:
        n = len(ds)
        for pos in sorted(ps):
            if pos <= n:
                continue
            for after in ((0, 3) if q else (0, 3, 40)):
                for dg in (("1",) if q or after else ("1", "7")):
                    full = ds + "0" * (pos - 1 - n) + dg + "0" * after
                    L = len(full)
                    base = e10 + n                      # exponent when the point is in front of the first digit
                    out.append(mk(F.name, full, "", base - L, "G27:sticky-int"))
                    out.append(mk(F.name, "", full, base, "G27:sticky-frac"))
                    for sp in sorted({n, B - 1, B, B + 1} & set(range(1, L))):
                        out.append(mk(F.name, full[:sp], full[sp:], base - sp, "G27:sticky-split"))
    return out


def g_subnormal_neighbours(F, rng, tier):
    """G28: the SHORT decimals (17, 18, 19 digits, and 9 for f32) immediately above and below midpoints of deep
    subnormals (significand fields log-uniform from 1 to 2^mbits): not truncated, so the middle stage alone decides them,
    with a product of which only a few leading bits survive the subnormal shift"""
    out = []
    q = tier == "quick"
    for _ in range(250 if q else 3000):
        bl = rng.randrange(1, F.mbits + 1)
        bits = rng.randrange(1 << (bl - 1), 1 << bl)
        M, k = F.midpoint(bits)
        ds, e10 = exact_decimal(M, k)
        n = len(ds)
        for t in ((17, 18, 19) if F.name == "f64" else (9, 17, 19)):
            if n <= t:
                continue
            lo = int(ds[:t])
            out.append(mk(F.name, str(lo), "", e10 + n - t, "G28:sub-below"))
            out.append(mk(F.name, str(lo + 1), "", e10 + n - t, "G28:sub-above"))
    return out


def g_floats_exact(F, rng, n):
    """exactly representable values (the float itself, not the midpoint)"""
    out = []
    for _ in range(n):
        ef = rng.randrange(0, F.emaxfield)
        fr = rng.choice(sig_patterns(F, rng, 2))
        m, e = F.decode((ef << F.mbits) | fr)
        if m == 0:
            continue
        ds, e10 = exact_decimal(m, e)
        for (i, f, ex) in forms(ds, e10, rng, nforms=1):
            out.append(mk(F.name, i, f, ex, "G2:float"))
    return out


def g_seams(F, rng):
    """G4: algorithm switch-overs and range ends"""
    out = []
    P = 1 << F.p
    sigs = [P - 1, P, P + 1, 2 * P - 1, 2 * P, 2 * P + 1, 10 ** 19 - 1, 10 ** 19, 10 ** 19 + 1,
            (1 << 64) - 1, 1 << 64, (1 << 64) + 1, 1 << 63, 9007199254740993, 16777217, 1, 3, 5, 7, 9]
    exps = sorted(set([0, 1, -1, F.fast_exp, F.fast_exp + 1, -F.fast_exp, -F.fast_exp - 1, F.disg_exp,
                       F.disg_exp + 1, F.disg_exp - 1, F.tie_lo - 1, F.tie_lo, F.tie_hi, F.tie_hi + 1,
                       F.p10_lo - 1, F.p10_lo, F.p10_lo + 1, F.p10_hi - 1, F.p10_hi, F.p10_hi + 1,
                       -27, -28, 55, 56]))
    for s in sigs:
        for e in exps:
            ds = str(s)
            i, f, ex = rng.choice(forms(ds, e, rng, nforms=2, long_ok=False))
            out.append(mk(F.name, i, f, ex, "G4:seam"))
    # disguised fast path: mantissa * 10^shift around the limit
    for shift in range(1, F.disg_exp - F.fast_exp + 1):
        lim = (2 << F.mbits) // 10 ** shift
        for w in (lim - 1, lim, lim + 1, lim + 2):
            if w > 0:
                out.append(mk(F.name, str(w), "", F.fast_exp + shift, "G4:disguised"))
                out.append(mk(F.name, str(w * 10 + 1), "", F.fast_exp + shift - 1, "G4:disguised"))
    # range ends: smallest subnormal, its half, largest subnormal/smallest normal, max finite / infinity
    specials = [(1, F.etiny - 1), (1, F.etiny), (3, F.etiny - 1), (1, F.etiny - 2), (3, F.etiny - 2),
                ((1 << F.mbits) - 1, F.etiny), (1 << F.mbits, F.etiny), ((1 << (F.mbits + 1)) - 1, F.etiny - 1),
                ((1 << F.p) - 1, F.emax - F.mbits), ((1 << (F.p + 1)) - 1, F.emax - F.p), (1, F.emax + 1)]
    for (M, k) in specials:
        ds, e10 = exact_decimal(M, k)
        v = int(ds)
        for (name, d, e) in (("exact", ds, e10), ("+1", str(v + 1), e10), ("-1", str(v - 1), e10),
                             ("far1", ds + "0" * 800 + "1", e10 - 801), ("nines", str(v - 1) + "9" * 900, e10 - 900)):
            d = d.lstrip("0")
            if d:
                for (i, f, ex) in forms(d, e, rng, nforms=2):
                    out.append(mk(F.name, i, f, ex, "G4:end:" + name))
    return out


I32MIN, I32MAX = -2 ** 31, 2 ** 31 - 1


def g_extremes(F, rng, big=100000):
    """G5: exponent limits, compensating long strings, empty parts, zero significands"""
    out = []
    Z = lambda n: [{"d": [0], "n": n}] if n else []
    one = [{"d": [1], "n": 1}]
    for e in (I32MIN, I32MIN + 1, -10 ** 9 - 1, -10 ** 9, -4097, -4096, -4095, -1100, -400, -343, 309, 400,
              1100, 4095, 4096, 4097, 10 ** 9, 10 ** 9 + 1, I32MAX - 1, I32MAX):
        out.append(mk(F.name, "1", "", e, "G5:exp"))
        out.append(mk(F.name, "", "", e, "G5:zero"))
        out.append(mk(F.name, "", "0", e, "G5:zero"))
        out.append(mk(F.name, "", "000", e, "G5:zero"))
        out.append(mk(F.name, "", "0" * 25, e, "G5:zero"))
        out.append(mk(F.name, "", "0" * 800, e, "G5:zero"))
        out.append(mk(F.name, "123456789012345678901234567890", "5", e, "G5:exp"))
        out.append(mk(F.name, "", "00000000000000000000000123", e, "G5:exp"))
    # digit counts around 2^8, 2^15, 2^16 (+19 significant digits) as well: a count kept in a narrower type
    for n in (big, big + 1, big - 1, 5000, 255, 256, 274, 275, 32767, 32768, 32786, 32787, 65535, 65536, 65554, 65555, 70000):
        # 1 followed by n zeros with exponent -n+-1
        for de in (-1, 0, 1):
            out.append(mk(F.name, one + Z(n), [], -n + de, "G5:comp"))
            out.append(mk(F.name, [], Z(n) + one, n + de, "G5:comp"))
            out.append(mk(F.name, [], Z(n) + [{"d": [1, 7, 9, 7, 6, 9, 3, 1, 3, 4, 8, 6, 2, 3, 1, 5, 8], "n": 1}], n + 309 + de, "G5:comp"))
            out.append(mk(F.name, [{"d": [4, 9, 4, 0, 6, 5, 6, 4, 5, 8, 4, 1, 2, 4, 6, 5, 5], "n": 1}] + Z(n), [], -n - 340 + de, "G5:comp"))
    out.append(mk(F.name, one + Z(big), Z(big) + one, I32MIN, "G5:comp"))
    out.append(mk(F.name, one + Z(big), [], I32MAX, "G5:comp"))
    out.append(mk(F.name, [], Z(big) + one, I32MIN, "G5:comp"))
    out.append(mk(F.name, [], Z(big) + one, I32MAX, "G5:comp"))
    return out


def g_runs(F, rng, n):
    """G6: run-structured strings around the truncation mechanisms"""
    lens = [1, 2, 17, 18, 19, 20, 21, 38, F.max_digits - 1, F.max_digits, F.max_digits + 1, 1200]
    digs = [0, 1, 5, 9]
    out = []
    for _ in range(n):
        nr = rng.randrange(1, 5)
        runs = [(rng.choice(digs), rng.choice(lens)) for _ in range(nr)]
        if runs[0][0] == 0:
            runs[0] = (rng.choice([1, 5, 9]), runs[0][1])
        S = [{"d": [d], "n": l} for (d, l) in runs]
        total = sum(l for _, l in runs)
        form = rng.randrange(3)
        # choose an exponent so that the value lands in an interesting range
        target = rng.choice([0, 1, -1, 15, -15, F.p10_hi, F.p10_lo + 20, 30, -30])
        if form == 0:
            out.append(mk(F.name, S, [], target - total, "G6:int"))
        elif form == 1:
            z = rng.choice([0, 1, 5, 400])
            out.append(mk(F.name, [], ([{"d": [0], "n": z}] if z else []) + S, target + z, "G6:frac"))
        else:
            k = rng.randrange(0, nr + 1)
            out.append(mk(F.name, S[:k], S[k:], target - sum(l for _, l in runs[:k]), "G6:split"))
    return out


def normalise(recs):
    """assign ids, convert digit strings to segments"""
    out = []
    for k, r in enumerate(recs):
        r = dict(r)
        r["id"] = k + 1
        if isinstance(r["int"], str):
            r["int"] = core.segs(r["int"])
        if isinstance(r["frac"], str):
            r["frac"] = core.segs(r["frac"])
        out.append(r)
    return out


def dedup(recs):
    seen = set()
    out = []
    for r in recs:
        key = (r["fmt"], str(r["int"]), str(r["frac"]), r["exp"])
        if key not in seen:
            seen.add(key)
            out.append(r)
    return out


def rng_for(name):
    return random.Random("%d/%s" % (core.seed(), name))


# ------------------------- midpoints whose decimal expansion starts low in its decade

def float_below(F, num, den):
    """bits of the largest finite float <= num/den (exact rational arithmetic, binary search on the bit pattern)"""
    lo, hi = 0, F.infbits - 1
    while lo < hi:
        mid = (lo + hi + 1) // 2
        m, e = F.decode(mid)
        # m * 2^e <= num/den ?
        le = (m << e) * den <= num if e >= 0 else m * den <= num << (-e)
        if le:
            lo = mid
        else:
            hi = mid - 1
    return lo


def low_decade_midpoints(F, rng, ndecades, per_decade):
    """float bit patterns whose upper midpoint starts with digits 1.00 .. 1.15 in its decade: there the first 19
    digits are a small integer (10^18 .. 1.15*10^18), i.e. one unit of a truncated significand is many units of
    the normalised 64-bit significand -- the weak spot of error-bounded algorithms (finding F1)."""
    kmin = -((-F.etiny * 30103) // 100000) - 1            # decade of the smallest subnormal
    kmax = (F.emax * 30103) // 100000
    sub_hi = -(((-(F.etiny + F.mbits)) * 30103) // 100000)  # decades up to the smallest normal: always included
    ks = sorted(set(range(kmin, sub_hi + 2)) | set(rng.sample(range(sub_hi + 2, kmax + 1), min(ndecades, kmax - sub_hi - 1))))
    out = []
    for k in ks:
        for _ in range(per_decade):
            x = rng.randrange(10 ** 6, 115 * 10 ** 4)      # 1.000000 .. 1.149999
            num, den = (x * 10 ** k, 10 ** 6) if k >= 0 else (x, 10 ** (6 - k))
            b = float_below(F, num, den)
            if 0 <= b < F.infbits - 1:
                out.append(b)
                out.append(b + rng.choice([1, 2, 3]))
    return sorted(set(b for b in out if b < F.infbits - 1))


# ------------------------------------------------ exact ties with <= 19 digits

def short_ties(F, rng, per_q):
    """(w, q) with w < 10^19 such that w * 10^q is EXACTLY halfway between two adjacent floats, for every q in the
    round-to-even window (and one beyond each end), both parities of the lower neighbour, several binary scalings.
    Construction: w * 10^q = (2m+1) * 2^t with 2m+1 a (p+1)-bit odd number.
      q < 0 : w = (2m+1) * 5^-q * 2^j            (t = q + j)
      q >= 0: 2m+1 = 5^q * k (k odd), w = k * 2^j (t = q + j)"""
    out = []
    lo, hi = 1 << F.p, 1 << (F.p + 1)          # 2m+1 in [2^p, 2^(p+1))
    for q in range(F.tie_lo - 2, F.tie_hi + 3):
        for parity in (0, 1):
            for _ in range(per_q):
                if q < 0:
                    mmax = min(hi // 2, (10 ** 19 // 5 ** (-q)) // 2)
                    if mmax <= lo // 2:
                        continue
                    m = rng.randrange(lo // 2, mmax)
                    m = (m & ~1) | parity
                    if m < lo // 2:
                        m += 2
                    odd = 2 * m + 1
                    base = odd * 5 ** (-q)
                else:
                    f = 5 ** q
                    kmin, kmax = -(-lo // f), (hi - 1) // f
                    if kmax - kmin > 4000:
                        k = rng.randrange(kmin, kmax) | 1
                        if ((f * k - 1) // 2) % 2 != parity:
                            k += 2
                        ks = [k] if lo <= f * k < hi else []
                    else:
                        ks = [k for k in range(kmin | 1, kmax + 1, 2) if ((f * k - 1) // 2) % 2 == parity]
                    if not ks:
                        continue
                    base = rng.choice(ks)
                for j in sorted({0, 1, rng.randrange(0, 12), rng.randrange(0, 64)}):
                    w = base << j
                    if w < 10 ** 19:
                        out.append((w, q))
    return out


def g_short_ties(F, rng, per_q):
    """G8: the exact ties above as parse inputs, +-1 in the last digit and in several forms"""
    out = []
    for (w, q) in short_ties(F, rng, per_q):
        for dw, tag in ((0, "G8:tie"), (1, "G8:tie+1"), (-1, "G8:tie-1")):
            if w + dw <= 0:
                continue
            ds = str(w + dw)
            t = ds.rstrip("0") or "0"
            for (i, f, e) in forms(t, q + len(ds) - len(t), rng, nforms=1, long_ok=False)[:2]:
                out.append(mk(F.name, i, f, e, tag))
        # the same tie with trailing zeros in the fraction and with a far-out digit (slow path must agree)
        ds = str(w)
        out.append(mk(F.name, ds, "0" * 25, q, "G8:tie-zeros"))
        out.append(mk(F.name, ds, "0" * 25 + "1", q, "G8:tie-far1"))
    return out


# ------------------------------------------------------------------ G3 (C11)

U64 = (1 << 64) - 1


def g_moderate(F, rng, tier):
    """(w, q, trunc) cases for the moderate stage"""
    out = []
    q = tier == "quick"

    def add(w, qq, tr, tag):
        if 0 <= w <= U64:
            out.append({"fmt": F.name, "w": core.limbs(w), "q": qq, "trunc": tr, "tag": tag})

    fields = list(range(0, F.emaxfield))
    keep = {0, 1, 2, F.emaxfield - 1, F.emaxfield - 2, F.bias}
    nf = (120 if F.name == "f64" else 80) if q else (900 if F.name == "f64" else 254)
    fields = sorted(keep | set(rng.sample(fields, min(nf, len(fields)))))
    for ef in fields:
        for fr in rng.sample(sig_patterns(F, rng, 2), 2 if q else 3):
            bits = (ef << F.mbits) | fr
            M, k = F.midpoint(bits)
            ds, e10 = exact_decimal(M, k)
            n = len(ds)
            for nd in (19, 20, 18, 17) if not q else (19, rng.choice([17, 18, 20])):
                if n >= nd:
                    w = int(ds[:nd])
                    qq = e10 + n - nd
                    exact = n == nd
                    for dw in (0, 1, -1):
                        add(w + dw, qq, False, "G3:mid")
                        add(w + dw, qq, True, "G3:mid-trunc")
                    if exact and nd < 19:
                        add(w * 10, qq - 1, False, "G3:mid-exact")
                else:
                    # short expansion: pad with zeros (exact tie representable in u64)
                    w = int(ds) * 10 ** (nd - n)
                    if w <= U64:
                        for dw in (0, 1, -1):
                            add(w + dw, e10 - (nd - n), False, "G3:tie")
                            add(w + dw, e10 - (nd - n), True, "G3:tie-trunc")
            # the float itself
            m, e = F.decode(bits)
            if m:
                ds2, e2 = exact_decimal(m, e)
                if len(ds2) <= 19:
                    add(int(ds2), e2, False, "G3:float")
                    add(int(ds2), e2, True, "G3:float-trunc")
    # midpoints that start low in their decade (19-digit prefix 10^18 .. 1.15*10^18), every subnormal decade included
    for bits in low_decade_midpoints(F, rng, 25 if q else 150, 2 if q else 3):
        M, k = F.midpoint(bits)
        ds, e10 = exact_decimal(M, k)
        n = len(ds)
        if n >= 19:
            w = int(ds[:19])
            for dw in (0, 1, -1):
                add(w + dw, e10 + n - 19, True, "G3:lowdecade-trunc")
                add(w + dw, e10 + n - 19, False, "G3:lowdecade")
    # every decade of the format: 17..19-digit prefixes of a midpoint (what a per-decade / per-exponent constant sees)
    for bits in decade_midpoints(F, rng, 4 if q else 1, 1 if q else 3):
        M, k = F.midpoint(bits)
        ds, e10 = exact_decimal(M, k)
        n = len(ds)
        for t in (17, 18, 19):
            if n > t:
                w = int(ds[:t])
                for dw in (0, 1):
                    add(w + dw, e10 + n - t, False, "G3:decade")
                    add(w + dw, e10 + n - t, True, "G3:decade-trunc")
    ws = [1, 2, 3, 5, 7, 9, 10, U64, U64 - 1, 1 << 63, (1 << 63) - 1, (1 << 63) + 1, 10 ** 19, 10 ** 19 - 1,
          (1 << F.p) - 1, 1 << F.p, (1 << F.p) + 1, (1 << (F.p + 1)) + 1, 1 << 32, (1 << 32) - 1]
    ws += [10 ** k for k in range(1, 20)] + [10 ** k - 1 for k in range(1, 20)]
    ws += [(1 << k) - 1 for k in range(2, 64, 7)] + [1 << k for k in range(2, 64, 7)]
    qs = [F.p10_lo - 1, F.p10_lo, F.p10_lo + 1, F.p10_hi - 1, F.p10_hi, F.p10_hi + 1, -351, -350, -349, 309, 310,
          319, 320, 0xfff, 0x1000, -0xfff, -0x1000, -0x1001, I32MIN, I32MAX, 0, 1, -1, F.tie_lo - 1, F.tie_lo,
          F.tie_hi, F.tie_hi + 1, -27, -28, 55, 56, F.fast_exp, -F.fast_exp]
    for w in ws:
        for qq in (qs if not q else rng.sample(qs, 10)):
            add(w, qq, False, "G3:special")
            add(w, qq, True, "G3:special-trunc")
    add(0, 0, True, "G3:zero")
    add(0, 5, False, "G3:zero")
    # witnesses of the listed findings / repaired defects stay in every corpus (regression cases)
    add(0, 309, True, "G7:finding")
    add(U64, 309, True, "G7:finding")
    add(0, -5, True, "G7:finding")
    if F.name == "f64":
        add(1022950655902796055, 290, True, "G7:F1")
        add(1, 0, True, "G7:F1")
        add(1399895427754828214, -319, True, "G7:F1")
    else:
        add(1037040465037118063, 20, True, "G7:F1")
    for _ in range(400 if q else 10000):
        w = rng.getrandbits(rng.choice([64, 64, 63, 60, 54, 30]))
        qq = rng.randrange(F.p10_lo - 3, F.p10_hi + 4)
        add(w, qq, rng.random() < 0.5, "G3:random")
    for (w, qq, r) in short_eighths(F, rng, 1 if q else 4):
        for z in (0, 1, 2):
            if w * 10 ** z < 10 ** 19:
                add(w * 10 ** z, qq - z, False, "G3:eighth")
    for (w, qq) in lo_ones(F.p10_lo - 2, F.p10_hi + 2):
        add(w, qq, False, "G3:lo-ones")
        add(w, qq, True, "G3:lo-ones-trunc")
        add(w - 1, qq, True, "G3:lo-ones-trunc")
    for (w, qq) in exact_products(F, rng, q):
        add(w, qq, False, "G3:exact-product")
        add(w, qq, True, "G3:exact-product-trunc")
        add(w - 1, qq, True, "G3:exact-product-trunc")
    for (w, sm) in pow10_thresholds(F):
        qs_ = [qq for qq in range(F.p10_lo, F.p10_hi + 1) if (qq - sm) % 10 == 0]
        for qq in (rng.sample(qs_, min(len(qs_), 8)) if q else qs_):
            add(w, qq, False, "G3:pow10-threshold")
        add(w, rng.choice(qs_), True, "G3:pow10-threshold-trunc")
    for (w, qq, ev) in lemire_refined(F, rng, 1 if q else 4, 6000 if q else 30000):
        add(w, qq, False, "G3:refine-" + ev)
    for (w, qq) in wide_exact_products(F, rng, q):
        add(w, qq, False, "G3:wide-product")
        add(w, qq, True, "G3:wide-product-trunc")
    # exact ties with <= 19 digits: every q of the tie window (+-2), both parities of the lower neighbour
    for (w, qq) in short_ties(F, rng, 2 if q else 8):
        add(w, qq, False, "G3:window")
        add(w + 1, qq, False, "G3:window+1")
        add(w - 1, qq, False, "G3:window-1")
        add(w, qq, True, "G3:window-trunc")
        add(w - 1, qq, True, "G3:window-trunc")
    for k, r in enumerate(out):
        r["id"] = k + 1
    return out


# ------------------------------------------------------------- C09 chains

def any_form(ds, e10, rng):
    """one representation of int(ds)*10^e10 (ds without leading zeros)"""
    return rng.choice(forms(ds, e10, rng, nforms=3, long_ok=(len(ds) < 60)))


def chain_of(F, vals, rng, tag):
    """vals: ascending list of (digits, e10); members get random forms"""
    mem = []
    for (ds, e) in vals:
        ds = ds.lstrip("0")
        if ds == "":
            mem.append(("", "", e))
        else:
            mem.append(any_form(ds, e, rng))
    return {"kind": "chain", "fmt": F.name, "tag": tag,
            "members": [{"int": i, "frac": f, "exp": e} for (i, f, e) in mem]}


def g_chains(F, rng, tier):
    q = tier == "quick"
    out = []
    P = 1 << F.p
    # 1. successive significands across seams
    bases = [P - 3, 2 * P - 3, 10 ** 19 - 4, (1 << 64) - 3, 10 ** 18 - 3, (2 << F.mbits) - 2, 10 ** 15 - 2, 10 ** 16 - 2,
             10 ** 7 - 2, 10 ** 8 - 2]
    exps = [0, 1, -1, F.fast_exp, F.fast_exp + 1, -F.fast_exp, -F.fast_exp - 1, F.disg_exp, F.disg_exp + 1, F.tie_lo,
            F.tie_hi, 30, -30, F.p10_lo + 25, F.p10_hi - 22]
    for w0 in bases:
        for e in (rng.sample(exps, 4) if q else exps):
            out.append(chain_of(F, [(str(w0 + d), e) for d in range(7)], rng, "C09:succ-sig"))
    # disguised fast path limit
    for shift in range(1, F.disg_exp - F.fast_exp + 1):
        lim = (2 << F.mbits) // 10 ** shift
        out.append(chain_of(F, [(str(lim + d), F.fast_exp + shift) for d in range(-2, 4) if lim + d > 0], rng, "C09:disguised"))
    # 2./5. around midpoints
    fields = rng.sample(range(0, F.emaxfield), (200 if F.name == 'f32' else 700) if q else (254 if F.name == 'f32' else 2046)) + [0, 1, F.emaxfield - 1]
    for ef in fields:
        fr = rng.choice(sig_patterns(F, rng, 2))
        bits = (ef << F.mbits) | fr
        M, k = F.midpoint(bits)
        ds, e10 = exact_decimal(M, k)
        v = int(ds)
        # nines-tail < exact < zeros (=) < far1 < +1
        z = rng.choice([1, 5, 30, 800, 2000])
        vals = [(str(v - 1), e10), (str(v - 1) + "9" * z, e10 - z), (ds, e10), (ds + "0" * z, e10 - z),
                (ds + "0" * z + "1", e10 - z - 1), (ds + "1", e10 - 1), (str(v + 1), e10)]
        out.append(chain_of(F, vals, rng, "C09:midpoint"))
        n = len(ds)
        # short inputs (resolved by the fast / moderate path) straddled by long neighbours (resolved with big integers):
        #   trunc_t(mid) < mid <= trunc_t(mid)999... < trunc_t(mid)+1 < (trunc_t(mid)+1)000...1
        for t in sorted(set([x for x in (17, 18, 19) if x < n] + rng.sample(range(1, min(n, 20)), min(1 if q else 6, min(n, 20) - 1)))):
            pre = ds[:t]
            up = str(int(pre) + 1)
            et = e10 + n - t
            vals = [(pre, et), (ds, e10), (pre + "9" * 30, et - 30), (up, et - (len(up) - len(pre))), (up + "0" * 25 + "1", et - (len(up) - len(pre)) - 26)]
            if len(up) != len(pre):
                vals = [(pre, et), (ds, e10), (pre + "9" * 30, et - 30), (up, et)]
            out.append(chain_of(F, vals, rng, "C09:straddle"))
        # successive last digits of the first 17..20 digits
        for nd in (19, 20, 17):
            if n > nd:
                pre = ds[:nd - 1]
                out.append(chain_of(F, [(pre + str(d), e10 + n - nd) for d in range(10)], rng, "C09:last-digit"))
                # truncated vs full
                out.append(chain_of(F, [(ds[:nd], e10 + n - nd), (ds[:nd + 1], e10 + n - nd - 1), (ds, e10),
                                        (str(int(ds[:nd]) + 1), e10 + n - nd)], rng, "C09:trunc"))
                break
    # 3. same digits, successive exponents
    for ds in ("1", "9", "17", "123456789", "9007199254740993", "18446744073709551615", "99999999999999999999", "5"):
        for lo in (-F.fast_exp - 3, F.fast_exp - 2, F.disg_exp - 2, F.p10_lo - 2, F.p10_hi - len(ds) - 2, -5):
            out.append(chain_of(F, [(ds, e) for e in range(lo, lo + 6)], rng, "C09:succ-exp"))
    # across the top of a binade (significand all ones -> next power of two), exponent field 0 (largest subnormal ->
    # smallest normal), 1, the top field (-> infinity) and sampled others: ascending fractions of the last ulp, each
    # written with 17 and with 19 digits (moderate stage) - the carry / promotion must not drop below the neighbours
    full = (1 << F.mbits) - 1
    for ef in [0, 1, 2, F.bias, F.emaxfield - 2, F.emaxfield - 1] + rng.sample(range(3, F.emaxfield - 2), 4 if q else 40):
        m, e = F.decode((ef << F.mbits) | full)
        for nd in (17, 19):
            vals = []
            for (a, b) in ((0, 1), (1, 1000), (1, 4), (499, 1000), (1, 2), (501, 1000), (3, 4), (999, 1000), (1, 1), (5, 4), (2, 1)):
                num, den = (m * b + a), b
                if e >= 0:
                    num <<= e
                else:
                    den <<= -e
                w, qq = nd_digits(num, den, nd)
                vals.append((str(w), qq))
            # truncation to nd digits is monotonic (equal values allowed)
            out.append({"kind": "chain", "fmt": F.name, "tag": "C09:carry",
                        "members": [{"int": w, "frac": "", "exp": qq} for (w, qq) in vals]})
    # every exponent of the (disguised) fast path: a short significand (decided by one floating-point operation) between
    # two 21..25-digit neighbours that leave the fast path:  w - 10^-20 ("..999")  <  w  <  w + 10^-24
    for qq in range(-F.fast_exp - 1, F.disg_exp + 2):
        ws = list(range(1, 10)) + [12, 15, 25, 26] + [rng.randrange(10, 1 << F.p) for _ in range(2 if q else 8)] + [(1 << F.p) - 1, 1 << F.p]
        for w in (rng.sample(ws, 7) if q else ws):
            below = str(w - 1) + "9" * 20 if w > 1 else "9" * 20
            mem = [{"int": below if w > 1 else "", "frac": "" if w > 1 else "9" * 20, "exp": qq - 20 if w > 1 else qq},
                   {"int": str(w), "frac": "", "exp": qq},
                   {"int": str(w), "frac": "0" * 23 + "1", "exp": qq}]
            out.append({"kind": "chain", "fmt": F.name, "tag": "C09:fast-seam", "members": mem})
    # short inputs whose exact product with 5^q is a tie +- a tiny delta beyond 64 bits (G31), between the long integers
    # one below and one above them (decided by the big integers), and next to the same value written out
    for (w, qq) in wide_exact_products(F, rng, q)[:: 2 if q else 1]:
        v = w * 10 ** qq
        mem = [{"int": str(v - 1), "frac": "", "exp": 0}, {"int": str(w), "frac": "", "exp": qq}, {"int": str(v), "frac": "", "exp": 0},
               {"int": str(v + 1), "frac": "", "exp": 0}]
        if w < 10 ** 18:
            # the same value with one zero moved into the significand: the 128-bit product is the same number, normalised
            # differently (equal values may stand next to each other in a chain, in either order)
            w10 = {"int": str(w) + "0", "frac": "", "exp": qq - 1}
            mem = [mem[0], w10, mem[1], w10] + mem[2:]
        out.append({"kind": "chain", "fmt": F.name, "tag": "C09:wide-product", "members": mem})
    # inputs for which Eisel-Lemire's second multiplication carries (G30), between their 25-digit neighbours
    for (w, qq, ev) in lemire_refined(F, rng, 1, 4000 if q else 20000):
        if ev == "carry":
            mem = [{"int": str(w - 1), "frac": "9" * 6, "exp": qq}, {"int": str(w), "frac": "", "exp": qq}, {"int": str(w), "frac": "0" * 5 + "1", "exp": qq}]
            out.append({"kind": "chain", "fmt": F.name, "tag": "C09:refine-carry", "members": mem})
    # every decade, first to last (and beyond): 1eq < 2eq < ... < 9eq < 1e(q+1); short forms only (what a caller writes)
    for qq in range(F.p10_lo - 3, F.p10_hi + 3):
        mem = [{"int": str(d), "frac": "", "exp": qq} for d in range(1, 10)] + [{"int": "1", "frac": "", "exp": qq + 1}, {"int": "15", "frac": "", "exp": qq}]
        out.append({"kind": "chain", "fmt": F.name, "tag": "C09:decade", "members": mem})
    # range ends
    for (M, k) in ((1, F.etiny - 1), (1, F.etiny), ((1 << F.mbits), F.etiny), ((1 << (F.p + 1)) - 1, F.emax - F.p)):
        ds, e10 = exact_decimal(M, k)
        v = int(ds)
        vals = [(str(v - 2), e10), (str(v - 1), e10), (str(v - 1) + "9" * 50, e10 - 50), (ds, e10), (ds + "0" * 60 + "1", e10 - 61),
                (str(v + 1), e10), (str(v + 2), e10)]
        out.append(chain_of(F, vals, rng, "C09:range-end"))
    for k, r in enumerate(out):
        r["id"] = k + 1
    return out


# ------------------------------------------------------------- C16 histories

def g_histories(F, rng, tier):
    """call HISTORIES for C16: short sequences of RELATED inputs, to be run back to back on one thread.  Around a midpoint
    with > 20 digits: its 19-digit prefix (`short`, decided without the big integers), the value just below (`below`,
    ...999), the exact tie, the value just above (`above`, far-out 1), all sharing the first 19 digits and the adjusted
    exponent; plus the same digits with the exponent one off, and the same text in the other float format.  Anything
    remembered from one call under a key that is too coarse (first digits, exponent, length, format) shows up as a
    result that differs from what a fresh process returns.  Returns a list of sequences of records."""
    q = tier == "quick"
    other = "f32" if F.name == "f64" else "f64"
    out = []
    fields = [0, 1, F.bias, F.bias + F.mbits + 1, F.emaxfield - 1] + rng.sample(range(2, F.emaxfield - 1), 25 if q else 250)
    for ef in fields:
        bits = (ef << F.mbits) | rng.choice(sig_patterns(F, rng, 2))
        M, k = F.midpoint(bits)
        ds, e10 = exact_decimal(M, k)
        n = len(ds)
        if n < 22:
            continue
        v = int(ds)
        def rec(d, e, fmt=F.name):
            d = d.lstrip("0")
            return mk(fmt, d[:1], d[1:], e + len(d) - 1, "C16:hist")
        short = rec(ds[:19], e10 + n - 19)
        shortup = rec(str(int(ds[:19]) + 1), e10 + n - 19)
        exact = rec(ds, e10)
        above = rec(ds + "0" * 5 + "1", e10 - 6)
        below = rec(str(v - 1) + "9" * 6, e10 - 6)
        above_e = rec(ds + "0" * 5 + "1", e10 - 5)
        seqs = [[short, above], [short, below], [above, short], [above, below], [below, above], [exact, above], [above, exact],
                [short, exact, below, above, short], [shortup, below], [above_e, above], [above, above_e],
                [dict(above, fmt=other), above], [dict(short, fmt=other), short, below], [above, above, below, below, above]]
        out += seqs if not q else rng.sample(seqs, 7)
    return out


# ------------------------------------------------------------- C10 groups

def g_groups(F, rng, tier):
    q = tier == "quick"
    out = []

    def group(ds, e10, tag):
        n = len(ds)
        mem = []
        ks = list(range(0, n + 1)) if n <= 24 else sorted(set([0, 1, 18, 19, 20, n - 1, n] + rng.sample(range(0, n + 1), 6)))
        for k in ks:
            z = rng.choice([0, 0, 1, 2, 17, 40])
            mem.append((ds[:k], ds[k:] + "0" * z, e10 + n - k))
        mem.append(("", "0" * 3 + ds, e10 + n + 3))
        mem.append(("", "0" * 30 + ds + "0" * 5, e10 + n + 30))
        for j in (1, 2, 5, 25):
            mem.append((ds + "0" * j, "", e10 - j))
            mem.append((ds + "0" * j, "0" * j, e10 - j))
        out.append({"kind": "group", "fmt": F.name, "tag": tag,
                    "members": [{"int": i, "frac": f, "exp": e} for (i, f, e) in mem]})

    for _ in range(40 if q else 300):
        nd = rng.choice([1, 2, 5, 15, 16, 17, 18, 19, 20, 21, 25, 40])
        ds = str(rng.randrange(10 ** (nd - 1), 10 ** nd))
        group(ds, rng.randrange(-40, 40), "C10:random")
    fields = rng.sample(range(0, F.emaxfield), 25 if q else 120) + [0, F.emaxfield - 1]
    for ef in fields:
        bits = (ef << F.mbits) | rng.choice(sig_patterns(F, rng, 2))
        M, k = F.midpoint(bits)
        ds, e10 = exact_decimal(M, k)
        group(ds, e10, "C10:midpoint")
        if len(ds) > 19:
            group(ds[:19], e10 + len(ds) - 19, "C10:mid19")
            group(ds[:20], e10 + len(ds) - 20, "C10:mid20")
            group(ds[:18], e10 + len(ds) - 18, "C10:mid18")
        m, e = F.decode(bits)
        if m:
            ds2, e2 = exact_decimal(m, e)
            group(ds2, e2, "C10:float")
    # short significands that sit next to a midpoint and start low in their decade ("10..."): every digit count 14..19,
    # both parities, so that appending a zero changes the parity of the significand's digit count
    for bits in low_decade_midpoints(F, rng, 12 if q else 60, 1):
        M, k = F.midpoint(bits)
        ds, e10 = exact_decimal(M, k)
        n = len(ds)
        for t in ((16, 17, 18) if q else (12, 14, 16, 17, 18, 19)):
            if n > t:
                pre = ds[:t]
                group(pre, e10 + n - t, "C10:low%d" % t)
                group(str(int(pre) + 1), e10 + n - t, "C10:low%d+1" % t)
    for ds in ("1", "10", "10000", "12345678901234567890", "9999999999999999999", "18446744073709551616"):
        for e in (0, F.fast_exp, F.fast_exp + 1, -F.fast_exp - 1, F.disg_exp, F.p10_hi - len(ds), F.p10_lo + 5, 4, 8):
            group(ds.rstrip("0") or "1", e + len(ds) - len(ds.rstrip("0")), "C10:seam")
    # every power of ten of the format written as 1, 10, 100, ... 10^18 times the complementary power (the significand
    # handed to the middle stage is then itself a power of ten: digit-count fence posts)
    for n in range(F.p10_lo - 1, F.p10_hi + 1):
        ks = sorted(set([1, 18] + rng.sample(range(2, 18), 3))) if q else range(1, 19)
        mem = [{"int": "1", "frac": "", "exp": n}] + [{"int": "1" + "0" * k, "frac": "", "exp": n - k} for k in ks]
        out.append({"kind": "group", "fmt": F.name, "tag": "C10:pow10", "members": mem})
    for (w, qq) in wide_exact_products(F, rng, q)[:: 3 if q else 1]:
        mem = [{"int": str(w), "frac": "", "exp": qq}, {"int": str(w) + "0" * qq, "frac": "", "exp": 0}, {"int": str(w) + "0", "frac": "", "exp": qq - 1},
               {"int": str(w)[:1], "frac": str(w)[1:], "exp": qq + len(str(w)) - 1}]
        out.append({"kind": "group", "fmt": F.name, "tag": "C10:wide-product", "members": mem})
    # the decimal point moved by hundreds to tens of thousands of places, compensated by the exponent (run-length: cheap):
    # 0.000..0ddd e(+n) = ddd = ddd000..0 e(-n), for n around every bound an implementation may clamp at
    for ds in (("1", "9007199254740993") if q else ("1", "25", "9007199254740993", "17976931348623157", "49406564584124654")):
        for base_e in ((0, -330) if F.name == "f64" else (0, 30)):
            mem = [{"int": ds, "frac": "", "exp": base_e}]
            for n in ((400, 4095, 4096, 4097, 5000) if q else (300, 400, 4000, 4095, 4096, 4097, 5000, 20000)):
                mem.append({"int": "", "frac": core.segs("0" * 0) + [{"d": [0], "n": n}] + core.segs(ds), "exp": base_e + n + len(ds)})
                mem.append({"int": core.segs(ds) + [{"d": [0], "n": n}], "frac": "", "exp": base_e - n})
            out.append({"kind": "group", "fmt": F.name, "tag": "C10:far-point", "members": mem})
    # short exact values at r/8 of an ulp: the same value with 0, 1, 2 trailing zeros in the significand and the point moved
    for (w, qq, r) in short_eighths(F, rng, 1 if q else 4):
        mem = []
        for z in (0, 1, 2):
            ww = w * 10 ** z
            if ww < 10 ** 19:
                mem += forms_keep(str(ww), qq - z, rng)[:3]
        if len(mem) > 1:
            out.append({"kind": "group", "fmt": F.name, "tag": "C10:eighth",
                        "members": [{"int": i, "frac": f, "exp": e} for (i, f, e) in mem]})
    # the decimal point at every position next to the digit budget of the big-integer path: one group per digit string
    bysame = {}
    for r in g_budget_splits(F, rng, tier):
        key = (r["tag"], r["int"] + r["frac"])
        bysame.setdefault(key, []).append(r)
    for (tag, _), mem in bysame.items():
        if len(mem) > 1:
            out.append({"kind": "group", "fmt": F.name, "tag": "C10:" + tag.split(":")[1],
                        "members": [{"int": m["int"], "frac": m["frac"], "exp": m["exp"]} for m in mem]})
    for k, r in enumerate(out):
        r["id"] = k + 1
    return out


# ---------------------------------------------------------------- C12 operands

M64 = (1 << 64) - 1


def vec64(limbs_):
    return [core.limbs(x) for x in limbs_]


def rand_vec(rng, n, kind=None):
    kind = kind or rng.choice(["ones", "highbit", "sparse", "random", "small", "pow5"])
    if n == 0:
        return []
    if kind == "ones":
        v = [M64] * n
    elif kind == "highbit":
        v = [0] * (n - 1) + [1 << 63]
    elif kind == "sparse":
        v = [rng.choice([0, 0, 1, M64, 1 << 32]) for _ in range(n)]
    elif kind == "small":
        v = [rng.randrange(0, 4) for _ in range(n)]
    elif kind == "pow5":
        x = 5 ** rng.randrange(1, 27 * n + 1)
        v = [(x >> (64 * k)) & M64 for k in range(n)]
    else:
        v = [rng.getrandbits(64) for _ in range(n)]
    if v[-1] == 0:
        v[-1] = rng.choice([1, M64, 1 << 63, rng.getrandbits(64) | 1])
    return v


def g_bigint(rng, tier):
    q = tier == "quick"
    out = []

    def add(op, x, y=None, n=0, tag=None):
        out.append({"op": op, "x": vec64(x), "y": vec64(y or []), "n": n, "tag": tag or op})

    lens = [0, 1, 2, 3, 5, 30, 31, 32, 60, 61, 62]
    scal = [0, 1, 2, 1 << 32, M64, 5 ** 27, 10 ** 19]
    for n in lens:
        for _ in range(1 if q else 6):
            x = rand_vec(rng, n)
            for s in (rng.sample(scal, 3) if q else scal) + [rng.getrandbits(64)]:
                add("small_add", x, [s])
                add("small_mul", x, [s])
            add("normalize", x + [0] * rng.choice([0, 1, 2]) if n + 2 <= 62 else x)
            if n + 3 <= 62:
                add("normalize", x + [0, 0], tag="normalize:2zeros")
                add("normalize", x + [0, 0, 0], tag="normalize:3zeros")
            add("hi64", x)
            add("bit_length", x)
            y = rand_vec(rng, rng.choice(lens))
            add("compare", x, y)
            add("compare", x, list(x))
            if n:
                x2 = list(x)
                x2[rng.randrange(n)] ^= 1 << rng.randrange(64)
                if x2[-1]:
                    add("compare", x, x2)
    # carry ripples: all-ones limbs below a limb that absorbs the carry (or none: a new limb, or overflow at capacity)
    for k in (1, 2, 3, 10, 60, 61, 62):
        add("small_add", [M64] * k, [1], tag="small_add:ripple-all")
        if k < 62:
            add("small_add", [M64] * k + [5], [1], tag="small_add:ripple-stops")
            add("small_add", [M64 - 3] + [M64] * (k - 1) + [7], [9], tag="small_add:ripple-stops")
    # hi64 / compare on SPARSE vectors: the two top limbs set and exactly one non-zero limb below them, at every position
    # (the sticky flag must see every limb), and none at all
    for n in list(range(3, 21)) + [30, 31, 32, 33, 61, 62]:
        # the second limb contributes no sticky bit of its own: zero, or only the bits that are shifted into the window
        lz = rng.choice([1, 7, 32, 63])
        top = rng.choice([[0, rng.getrandbits(64) | 1], [0, 1 << 63],
                          [((1 << lz) - 1) << (64 - lz), (rng.getrandbits(64) >> lz) | (1 << (63 - lz))]])
        add("hi64", [0] * (n - 2) + top, tag="hi64:sparse-none")
        for pos in range(0, n - 2):
            x = [0] * (n - 2) + top
            x[pos] = 1 << rng.randrange(64)
            add("hi64", x, tag="hi64:sparse")
            if not q or pos % 3 == 0:
                y = [0] * (n - 2) + top
                add("compare", x, y, tag="compare:sparse")
    for s in scal + [rng.getrandbits(64) for _ in range(3)]:
        add("from_u64", [], [s])
    # additions with offsets, up to and beyond the capacity
    for _ in range(40 if q else 600):
        nx = rng.choice(lens)
        ny = rng.choice([1, 2, 5, 30, 31, 61, 62])
        st = rng.choice([0, 1, 2, 30, 31, 57, 60, 61])
        add("large_add_from", rand_vec(rng, nx), rand_vec(rng, ny), st)
    add("large_add_from", [M64] * 62, [1], 0, "large_add_from:carry-out")
    add("large_add_from", [M64] * 61, [1], 0, "large_add_from:carry-push")
    add("large_add_from", [M64] * 30, [M64] * 30, 0)
    # multiplications: products within, at and one limb beyond the capacity
    for (nx, ny) in [(1, 1), (1, 5), (5, 1), (2, 2), (5, 5), (10, 10), (31, 31), (30, 32), (31, 32), (32, 31), (57, 5), (58, 5), (5, 57),
                     (5, 58), (61, 1), (62, 1), (61, 2), (60, 2), (20, 42), (20, 43), (3, 59), (3, 60)]:
        for kind in (["ones"] if q else ["ones", "random", "highbit", "small", "sparse"]):
            add("long_mul", rand_vec(rng, nx, kind), rand_vec(rng, ny, kind))
            add("large_mul", rand_vec(rng, nx, kind), rand_vec(rng, ny, kind))
        add("long_mul", rand_vec(rng, nx, "small"), rand_vec(rng, ny, "highbit"))
        # the same through the operator forms and plain large_add
        add("mul_assign", rand_vec(rng, nx, "random"), rand_vec(rng, ny, "random"))
        add("bigint_mul_assign", rand_vec(rng, nx, "random"), rand_vec(rng, ny, "random"))
    for _ in range(20 if q else 300):
        add("large_add", rand_vec(rng, rng.choice(lens)), rand_vec(rng, rng.choice([1, 2, 5, 30, 31, 61, 62])))
    add("large_add", [M64] * 62, [1], 0, "large_add:carry-out")
    add("large_add", [M64] * 61, [M64] * 61, 0, "large_add:carry-push")
    # degenerate operands (outside the property's domain: judged for panics only)
    add("long_mul", [1, 2, 3], [], 0, "long_mul:empty")
    add("long_mul", [], [1, 2, 3], 0, "long_mul:empty")
    add("large_mul", [], [], 0, "large_mul:empty")
    add("shl_limbs", [], None, 3, "shl_limbs:empty")
    add("shl", [], None, 130, "shl:empty")
    add("large_add", [], [], 0, "large_add:empty")
    large5 = [(5 ** 135 >> (64 * k)) & M64 for k in range(5)]
    add("large_mul", [1], large5, 0, "large_mul:5^135")
    add("large_mul", [M64] * 57, large5, 0, "large_mul:5^135")
    add("large_mul", [M64] * 58, large5, 0, "large_mul:5^135")
    # powers of five / two / ten up to overflow
    for e in [0, 1, 2, 26, 27, 28, 54, 134, 135, 136, 161, 162, 163, 269, 270, 271, 405, 1111, 1500, 1700, 1708, 1709, 1710, 1800, 3000]:
        for x in ([[1]] if q else [[1], [3], [M64], [1, 1]]):
            add("pow5", x, None, e)
        add("bigint_pow5", [7], None, e)
    # products with an EXACTLY ZERO interior limb: x = ceil(H 2^(64 t) / m) gives x m = H 2^(64 t) + r with r < m, so the
    # limbs between the length of m and limb t are zero - a carry that is an exact non-zero multiple of 2^64, a partial
    # sum that is exactly zero: a 2^-64 coincidence for random operands
    def limbs_of(v):
        o = []
        while v:
            o.append(v & M64)
            v >>= 64
        return o

    for e in ([13, 27, 28, 40, 54, 55, 56, 81, 82, 110, 135, 136, 162, 190] if q else list(range(1, 140, 3)) + [162, 163, 190, 191, 270, 271, 300]):
        m5 = 5 ** e
        lm = (m5.bit_length() + 63) // 64
        for t in (lm, lm + 1, lm + 2):
            H = rng.getrandbits(rng.choice([1, 20, 60, 64])) | 1
            x = -(-(H << (64 * t)) // m5)
            if x.bit_length() + m5.bit_length() <= 62 * 64:
                add("pow5", limbs_of(x), None, e, tag="pow5:zero-interior")
    for m in [5 ** 27, 10 ** 19, M64, (1 << 63) + 1, 3, rng.getrandbits(64) | 1]:
        for t in (1, 2, 3, 5):
            H = rng.getrandbits(rng.choice([1, 33, 64])) | 1
            add("small_mul", limbs_of(-(-(H << (64 * t)) // m)), [m], tag="small_mul:zero-interior")
    for ny in (2, 3, 5):
        yv = rng.getrandbits(64 * ny) | 1 | (1 << (64 * ny - 1))
        for t in (ny, ny + 1, ny + 3):
            H = rng.getrandbits(rng.choice([1, 64, 100])) | 1
            xv = limbs_of(-(-(H << (64 * t)) // yv))
            add("long_mul", xv, limbs_of(yv), tag="long_mul:zero-interior")
            add("large_mul", xv, limbs_of(yv), tag="large_mul:zero-interior")
    # pow on SINGLE-LIMB operands of every bit length (1..64) and every small value: a native pre-multiplication that
    # "fits" only by an estimate (bits per power of five) is wrong for one bit length and a few exponents
    small_x = list(range(1, 71 if q else 300)) + [v for k in range(7, 65, 1 if not q else 3) for v in ((1 << k) - 1, 1 << (k - 1), (1 << (k - 1)) + 1) if v < (1 << 64)]
    for x1 in small_x:
        for e in ([1, 13, 24, 25, 26, 27, 28, 55] if q else [1, 2, 13, 14, 24, 25, 26, 27, 28, 40, 54, 55, 135, 136, 162]):
            add("pow5", [x1], None, e, tag="pow5:single-limb")
    for e in [0, 1, 63, 64, 65, 127, 128, 1000, 3900, 3966, 3967, 3968, 3969, 4031, 4032, 4100]:
        add("shl", [1], None, e)
        add("shl", [M64], None, e)
        add("bigint_pow2", [1, 1], None, e)
        add("shl", rand_vec(rng, 30), None, e)
    for nb in [1, 7, 31, 32, 33, 63]:
        for n in (1, 2, 30, 61, 62):
            add("shl_bits", rand_vec(rng, n), None, nb)
    for nl in [1, 2, 30, 31, 32, 61, 62, 63]:
        for n in (1, 2, 30, 31, 32, 61, 62):
            add("shl_limbs", rand_vec(rng, n), None, nl)
    for e in [0, 1, 19, 27, 100, 300, 308, 400, 768, 1000, 1100, 1193, 1194, 1195, 1200]:
        add("bigint_pow10", [1], None, e)
        add("bigint_pow10", [12345678901234567890], None, e)
    # hi64 building blocks, both limb widths (limbs most significant first, first limb non-zero)
    v32 = [1, 2, 5, 1 << 15, (1 << 31) - 1, 1 << 31, (1 << 31) + 1, (1 << 32) - 1]
    v64 = [1, 3, 1 << 31, 1 << 32, (1 << 63) - 1, 1 << 63, (1 << 63) + 1, M64]
    for a in v32:
        add("u32_hi64_1", [a])
        for b in v32 + [0]:
            add("u32_hi64_2", [a, b])
            for c in (0, 1, 1 << 31, (1 << 32) - 1, rng.getrandbits(32)):
                add("u32_hi64_3", [a, b, c])
    for a in v64:
        add("u64_hi64_1", [a])
        for b in v64 + [0, rng.getrandbits(64)]:
            add("u64_hi64_2", [a, b])
    for k, r in enumerate(out):
        r["id"] = k + 1
    return out


# --------------------------------------------------------------- C08 garbage

def g_garbage(rng, tier):
    """arbitrary bytes for integer / fraction: byte classes in run-structured strings + random bytes"""
    q = tier == "quick"
    out = []
    classes = [48, 57, 58, 255, 0, 47, 49, 128, 208]       # '0' '9' ':' 0xFF NUL '/' '1' 0x80 0xD0
    runlens = [1, 2, 19, 20, 21, 770, 2000]
    exps = [0, 1, -1, 22, -22, 23, 37, 38, 308, 309, -342, -343, 0xfff, 0x1000, -0x1000, I32MAX, I32MIN, I32MAX - 1, I32MIN + 1, 5000, -5000]

    def runs(nmax):
        k = rng.randrange(0, nmax + 1)
        return [{"d": [rng.choice(classes)], "n": rng.choice(runlens)} for _ in range(k)]

    for _ in range(600 if q else 20000):
        for fmt in ("f64", "f32"):
            out.append({"fmt": fmt, "int": runs(3), "frac": runs(3), "exp": rng.choice(exps), "raw": True, "tag": "C08:runs"})
    # digits mixed with single garbage bytes at critical positions
    for pos in (0, 1, 18, 19, 20, 768, 769, 770):
        for b in (0, 47, 58, 255):
            ds = [rng.randrange(48, 58) for _ in range(800)]
            ds[pos] = b
            for fmt in ("f64", "f32"):
                out.append({"fmt": fmt, "int": [{"d": ds, "n": 1}], "frac": [], "exp": -400, "raw": True, "tag": "C08:one-bad-byte"})
                out.append({"fmt": fmt, "int": [], "frac": [{"d": ds, "n": 1}], "exp": 300, "raw": True, "tag": "C08:one-bad-byte"})
    # leading / trailing zeros (precondition violations with valid digits)
    for fmt in ("f64", "f32"):
        for e in (0, -30, 30):
            out.append({"fmt": fmt, "int": [{"d": [48], "n": 30}, {"d": [49], "n": 1}], "frac": [{"d": [48], "n": 25}], "exp": e, "raw": True, "tag": "C08:zeros"})
            out.append({"fmt": fmt, "int": [{"d": [48], "n": 1}], "frac": [{"d": [48], "n": 19}, {"d": [49], "n": 1}], "exp": e, "raw": True, "tag": "C08:zeros"})
    # nothing but zeros (leading-zero precondition violated): the big-integer path may be entered with an empty integer
    for n in (19, 20, 21, 32, 100, 770, 800):
        for m in (0, 1, 25):
            for e in (0, 5, 100, 160, 200, 280, 308, -5, -100, -342, 17, 38):
                for fmt in ("f64", "f32"):
                    out.append({"fmt": fmt, "int": [{"d": [48], "n": n}], "frac": ([{"d": [48], "n": m}] if m else []), "exp": e, "raw": True,
                                "tag": "C08:all-zeros"})
    # random bytes, every value, lengths to 10^4
    for _ in range(300 if q else 10000):
        li = rng.choice([0, 1, 5, 19, 20, 100, 1000, 10000])
        lf = rng.choice([0, 1, 5, 19, 20, 100, 1000, 10000])
        mk_ = lambda n: [{"d": [rng.randrange(256) for _ in range(n)], "n": 1}] if n else []
        out.append({"fmt": rng.choice(["f64", "f32"]), "int": mk_(li), "frac": mk_(lf), "exp": rng.choice(exps + [rng.randrange(-400, 400)]),
                    "raw": True, "tag": "C08:random"})
    # bytes whose first 19 ACCUMULATE to a chosen 64-bit significand (the first byte may stand for a "digit" up to 207):
    # u64::MAX (mantissa + 1 wraps), 2^63, 10^19 and neighbours, followed by more bytes (digits were "truncated"),
    # with exponents inside, at the ends of and far outside every table
    for target in (U64, U64 - 1, 1 << 63, (1 << 63) - 1, 10 ** 19, 10 ** 19 - 1, U64 - 9):
        v0, rest = divmod(target, 10 ** 18)
        if v0 > 207:
            continue
        head = [48 + v0] + [48 + int(c) for c in "%018d" % rest]
        for tail in ([], [48], [53], [255], [48] * 5 + [49]):
            for e in (0, 5, -5, 290, 291, 300, 308, 309, 310, 319, 320, 400, 4095, 4096, -330, -342, -343, -350, -351, -359, -360, -400,
                      -4096, I32MAX, I32MIN):
                for fmt in ("f64", "f32"):
                    out.append({"fmt": fmt, "int": [{"d": head + tail, "n": 1}], "frac": [], "exp": e, "raw": True, "tag": "C08:accumulate"})
                    out.append({"fmt": fmt, "int": [{"d": head[:7], "n": 1}], "frac": [{"d": head[7:] + tail, "n": 1}], "exp": e, "raw": True,
                                "tag": "C08:accumulate"})
    # bytes that make the big integers as large as possible: 0xFF digits (value 207) in long runs
    for n in (700, 769, 770, 1000, 5000):
        for fmt in ("f64", "f32"):
            out.append({"fmt": fmt, "int": [{"d": [255], "n": n}], "frac": [], "exp": 0, "raw": True, "tag": "C08:big"})
            out.append({"fmt": fmt, "int": [], "frac": [{"d": [255], "n": n}], "exp": -300, "raw": True, "tag": "C08:big"})
            out.append({"fmt": fmt, "int": [{"d": [255], "n": 19}], "frac": [{"d": [255], "n": n}], "exp": 280, "raw": True, "tag": "C08:big"})
    for k, r in enumerate(out):
        r["id"] = k + 1
    return out
