"""Per-property checks."""
from . import core, gen, parsecheck


def value_corpus(F, tier, name):
    rng = gen.rng_for(name)
    q = tier == "quick"
    recs = []
    recs += gen.g_plain(F, rng, 300 if q else 4000)
    recs += gen.g_midpoints(F, rng, tier, nexp=60 if q else None, nrand=1 if q else 6)
    recs += gen.g_floats_exact(F, rng, 100 if q else 2000)
    recs += gen.g_seams(F, rng)
    recs += gen.g_extremes(F, rng, big=20000 if q else 1000000)
    recs += gen.g_runs(F, rng, 150 if q else 3000)
    return gen.normalise(gen.dedup(recs))


def c01(tier):
    cfgs = ["std", "std+compact"] if tier == "quick" else core.ALL_CONFIGS
    inputs = value_corpus(gen.F64, tier, "C01")
    parsecheck.parse_property_check(
        "C01", tier, inputs, cfgs, {"VALUE", "MODEL"},
        rule="f64 inputs from families G1 (plain), G2 (midpoint-derived variants for every/selected exponent field), "
             "G4 (seams), G5 (extremes), G6 (run-structured); distinct = distinct (int,frac,exp) triples; "
             "every record is adjudicated by TLC with IEEE!Judge",
        level_note="TLC evaluates the declarative rounding definition (IEEE.tla) on each (input, bits) pair observed "
                   "from the real code; trusted: TLC, BigNat (model-checked against native ints), JSON limb codec")


def c02(tier):
    cfgs = ["std", "std+compact"] if tier == "quick" else core.ALL_CONFIGS
    inputs = value_corpus(gen.F32, tier, "C02")
    parsecheck.parse_property_check(
        "C02", tier, inputs, cfgs, {"VALUE", "MODEL"},
        rule="f32 inputs, same families as C01 with the f32 constants; single rounding is decided directly by the oracle",
        level_note="as C01")


CHECKS = {"C01": c01, "C02": c02}


# ----------------------------------------------------------------------- C11
import collections
import json
import os
import time


def run_records(wd, binary, inputs, configs, profile="release", name="recs"):
    """run a harness binary over NDJSON inputs in several configurations"""
    inp = os.path.join(wd, name + "-in.ndjson")
    core.write_ndjson(inp, [{k: v for k, v in r.items() if k != "tag"} for r in inputs])
    outs = {}
    for cfg in configs:
        bindir = core.build_harness(cfg, profile=profile, bins=[binary])
        outp = os.path.join(wd, "%s-out-%s.ndjson" % (name, cfg.replace("+", "_")))
        core.run([os.path.join(bindir, binary), "--in", inp, "--out", outp], timeout=1800)
        outs[cfg] = core.read_ndjson(outp)
        if len(outs[cfg]) != len(inputs):
            raise core.ToolError("%s returned %d records for %d inputs" % (binary, len(outs[cfg]), len(inputs)))
    return outs


def tlc_records(wd, module, recs, name, env=None, timeout=3000):
    path = os.path.join(wd, name + "-records.ndjson")
    core.write_ndjson(path, recs)
    e = {"VERIF_RECORDS": path}
    e.update(env or {})
    res = core.tlc(os.path.join(core.SPEC, "cf", module + ".tla"), os.path.join(core.SPEC, "cf", module + ".cfg"),
                   name, env=e, coverage=False, timeout=timeout)
    verdicts = {p["id"]: p for p in res.prints if isinstance(p, dict) and "id" in p}
    bad = core.tlc_fatal(res)
    if bad or len(verdicts) != len(recs):
        raise core.ToolError("TLC did not adjudicate every record (%d of %d); errors: %s; see %s" %
                             (len(verdicts), len(recs), bad[:3], os.path.join(core.WORK, "tlc-" + name + ".log")))
    return verdicts, res


def c11_known(key):
    """C11 findings are keyed by call-site class: implementation, w, trunc and either an exact q or a lower bound q_ge"""
    for k in core.load_known():
        if k.get("status") != "open" or k.get("property") != "C11":
            continue
        kk = k["key"]
        if kk.get("impl") == key["impl"] and kk.get("w") == key["w"] and kk.get("trunc") == key["trunc"] \
                and kk.get("outcome") == key["outcome"] \
                and (("q" in kk and kk["q"] == key["q"]) or ("q_ge" in kk and key["q"] >= kk["q_ge"])):
            return k
    return None


def c11(tier):
    t0 = time.time()
    wd = core.workdir("C11")
    inputs = []
    for F in (gen.F64, gen.F32):
        inputs += gen.g_moderate(F, gen.rng_for("C11" + F.name), tier)
    for k, r in enumerate(inputs):
        r["id"] = k + 1
    cfgs = ["std", "std+compact"] if tier == "quick" else ["std", "std+compact", "none", "compact", "std+alloc", "compact+alloc"]
    outs = run_records(wd, "run_moderate", inputs, cfgs)
    recs = []
    for k, r in enumerate(inputs):
        m = {"id": r["id"], "fmt": r["fmt"], "w": r["w"], "q": r["q"], "trunc": r["trunc"], "outs": []}
        for cfg in cfgs:
            o = outs[cfg][k]["res"]
            m["outs"].append({"cfg": cfg, "kind": o["kind"], "valid": o["valid"], "mant": o["mant"], "exp": o["exp"],
                              "bits": o["bits"]})
        recs.append(m)
    verdicts, res = tlc_records(wd, "CF_Moderate", recs, "C11")
    violations, known, drift = [], set(), 0
    outcome = collections.Counter()
    actions = collections.Counter()
    by_id = {r["id"]: r for r in inputs}
    for rid, v in verdicts.items():
        r = by_id[rid]
        for k, c in enumerate(v["trail"][:len(cfgs)]):
            outcome["%s:%s:%s" % (r["fmt"], "bellerophon" if "compact" in cfgs[k] else "lemire", c)] += 1
        if v["verdict"] == "ok":
            if "DRIFT" in v["trail"]:
                drift += 1
            for tags in json.loads(v["trail"][-1]):
                for a in tags:
                    actions[a] += 1
        else:
            # one finding per (input, implementation of the stage) whose contract outcome is bad
            for k, c in enumerate(v["trail"][:len(cfgs)]):
                if c not in ("wrong", "wrong_interval", "panic"):
                    continue
                key = {"fmt": r["fmt"], "impl": "bellerophon" if "compact" in cfgs[k] else "lemire",
                       "w": str(core.from_limbs(r["w"])), "q": r["q"], "trunc": r["trunc"], "outcome": c}
                kf = c11_known(key)
                if kf:
                    known.add("%s" % kf.get("what", ""))
                else:
                    violations.append(core.write_replay("C11", {"property": "C11", "input": key, "config": cfgs[k],
                                                                "record": recs[rid - 1], "verdict": v}))
    known = sorted(known)
    tags = collections.Counter(r["tag"] for r in inputs)
    cov = {
        "states": res.distinct, "transitions": res.generated,
        "traces_validated_against_impl": len(recs) * len(cfgs),
        "evaluations": len(recs) * len(cfgs),
        "distinct_nontrivial": len({(r["fmt"], str(r["w"]), r["q"], r["trunc"]) for r in inputs}),
        "rule": "(w,q,truncated) triples: w = first 17..20 digits of exact float midpoints (+-1) for every / sampled "
                "exponent field, exact ties inside the tie window, special w and q at every short-circuit, random; "
                "each run through moderate_path in default (Eisel-Lemire) and compact (Bellerophon) builds; TLC decides "
                "the contract with IEEE!Judge on w*10^q and on the upper end (w+1)*10^q",
        "samples": [{"fmt": r["fmt"], "w": str(core.from_limbs(r["w"])), "q": r["q"], "trunc": r["trunc"], "tag": r["tag"]}
                    for r in inputs[:: max(1, len(inputs) // 8)]][:10],
        "families": dict(tags), "contract_outcomes": dict(outcome), "model_actions": dict(actions),
        "model_vs_impl_drift": drift, "configs": cfgs, "tlc_cmd": res.cmd, "exhaustive": False,
    }
    core.write_evidence("C11", tier, "model_checking", cov, time.time() - t0, len(violations),
                        assumptions=["release profile (value property); TLC + BigNat + IEEE oracle trusted as in C01"])
    if drift:
        core.log("NOTE: %d records where the algorithm model and the implementation differ in an internal field (DRIFT)" % drift)
    core.finish("C11", violations, known)


CHECKS["C11"] = c11
