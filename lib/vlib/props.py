"""Per-property checks."""
from . import core, gen, parsecheck


def value_corpus(F, tier, name):
    rng = gen.rng_for(name)
    q = tier == "quick"
    recs = []
    recs += gen.g_plain(F, rng, 200 if q else 4000)
    recs += gen.g_midpoints(F, rng, tier, nexp=40 if q else 900, nrand=1 if q else 6)
    recs += gen.g_floats_exact(F, rng, 60 if q else 2000)
    recs += gen.g_seams(F, rng)[:: 2 if q else 1]
    recs += gen.g_short_ties(F, rng, 1 if q else 8)[:: 2 if q else 1]
    recs += gen.g_low_decade(F, rng, tier, 6 if q else 150, 1 if q else 2)
    recs += gen.g_beyond_range(F, rng, 1 if q else 4)[:: 2 if q else 1]
    recs += gen.g_every_decade(F, rng, 5 if q else 1, 1 if q else 2)
    recs += gen.g_int_ties(F, rng, 40 if q else 800)
    recs += gen.g_carry(F, rng, tier)
    recs += gen.g_grid(F, rng, tier)
    recs += gen.g_exact_products(F, rng, tier)
    recs += gen.g_lo_ones(F, rng, tier)
    recs += gen.g_tie_digit_counts(F, rng, tier)
    recs += gen.g_disguised_wrap(F, rng, tier)
    recs += gen.g_short_eighths(F, rng, tier)[:: 2 if q else 1]
    recs += gen.g_pow5_thresholds(F, rng, tier)
    recs += gen.g_limb_crossers(F, rng, tier)
    recs += gen.g_pow2_digits(F, rng, tier)
    recs += gen.g_trailing_zeros(F, rng, tier)
    recs += gen.g_sticky_positions(F, rng, tier)[:: 3 if q else 1]
    recs += gen.g_subnormal_neighbours(F, rng, tier)
    recs += gen.g_pow10_thresholds(F, rng, tier)
    recs += gen.g_lemire_refined(F, rng, tier)
    recs += gen.g_refined_next(F, rng, tier)
    recs += gen.g_midword_products(F, rng, tier)
    recs += gen.g_wide_exact_products(F, rng, tier)
    recs += gen.g_slow_grid(F, rng, tier)
    recs += gen.g_long_pos_ties(F, rng, tier)
    recs += gen.g_zero_limbs(F, rng, tier)
    recs += gen.g_sparse_bigmant(F, rng, 10 if q else 200) if F.name == "f64" else []
    recs += gen.g_budget_splits(F, rng, tier)[:: 3 if q else 1]
    recs += gen.g_extremes(F, rng, big=20000 if q else 1000000)
    recs += gen.g_runs(F, rng, 80 if q else 3000)
    return gen.normalise(gen.dedup(recs))


def mc_parse(cfgname, name, timeout=6000):
    """design-level model checking of the whole pipeline on a small format (MC_Parse); returns the `mc` evidence block"""
    t0 = time.time()
    r = core.tlc(os.path.join(core.SPEC, "mc", "MC_Parse.tla"), os.path.join(core.SPEC, "mc", cfgname + ".cfg"), name,
                 coverage=False, cont=True, timeout=timeout)
    bad = [p for p in r.prints if isinstance(p, dict) and p.get("verdict") != "ok"]
    if core.tlc_fatal(r) or r.distinct == 0:
        raise core.ToolError("MC_Parse (%s) failed: %s" % (cfgname, core.tlc_fatal(r)[:2]))
    if bad or r.invariant_violations:
        # the DESIGN (model) violates the property on a small format: not an implementation verdict
        raise core.ToolError("MC_Parse (%s): the algorithm model violates the property, e.g. %s" % (cfgname, bad[:2]))
    acts = collections.Counter()
    for p in r.prints:
        if isinstance(p, dict):
            for a in set(p.get("l", [])) | set(p.get("c", [])):
                acts[a] += 1
    return {"module": "MC_Parse", "config": cfgname, "states": r.distinct, "transitions": r.generated,
            "inputs": r.distinct // 5, "sampled_action_counts": dict(acts), "wall_s": round(time.time() - t0, 1)}


def c01(tier):
    cfgs = ["std", "std+compact"] if tier == "quick" else core.ALL_CONFIGS
    inputs = value_corpus(gen.F64, tier, "C01")
    mc = mc_parse("MC_Parse_F10_quick" if tier == "quick" else "MC_Parse_BF16", "C01-mc")
    parsecheck.parse_property_check(
        "C01", tier, inputs, cfgs, {"VALUE", "MODEL"},
        rule="f64 inputs from families G1 (plain), G2 (midpoint-derived variants for every/selected exponent field), "
             "G4 (seams), G5 (extremes), G6 (run-structured), G8 (exact <= 19-digit ties, both parities), G9 (low-decade "
             "midpoints), G10 (integer ties + one bit), G11 (every binade beyond the range ends), G12 (every decade, 17..19-digit "
             "truncations), G13 (carry into the next binade incl. subnormal -> normal), G14 (d x 10^q for every q), G15 (exact "
             "64-bit products w x 5^q with forced low-bit patterns), G16 (first product's low word all ones), G17 (exact "
             "ties for every digit count and both ends of a decade), G18 (disguised fast path: scaled significand wraps), "
             "G19 (decimal point at every position next to the digit budget), G20 (short exact values at r/8 of an ulp, three spellings), "
             "G21 (integer parts ending in 64..192 zeros: zero low limbs), "
             "G22 (sparse big integers x large powers), G23 (w next to 2^k / 5^q), G24 (subnormal midpoints whose stepped power "
             "crosses a limb boundary), G25 (digits of 2^(64j) + d); "
             "distinct = distinct (int,frac,exp) triples; "
             "every record is adjudicated by TLC with IEEE!Judge",
        level_note="TLC evaluates the declarative rounding definition (IEEE.tla) on each (input, bits) pair observed "
                   "from the real code; trusted: TLC, BigNat (model-checked against native ints), JSON limb codec", mc=mc)


def c02(tier):
    cfgs = ["std", "std+compact"] if tier == "quick" else core.ALL_CONFIGS
    inputs = value_corpus(gen.F32, tier, "C02")
    mc = mc_parse("MC_Parse_BF16_quick" if tier == "quick" else "MC_Parse_F10", "C02-mc")
    parsecheck.parse_property_check(
        "C02", tier, inputs, cfgs, {"VALUE", "MODEL"},
        rule="f32 inputs, same families as C01 with the f32 constants; single rounding is decided directly by the oracle",
        level_note="as C01", mc=mc)


CHECKS = {"C01": c01, "C02": c02}


# ----------------------------------------------------------------------- C11
import collections
import json
import os
import time


def run_records(wd, binary, inputs, configs, profile="release", name="recs"):
    """run a harness binary over NDJSON inputs in several configurations"""
    inp = os.path.join(wd, name + "-in.ndjson")
    core.write_ndjson(inp, [{k: v for k, v in r.items() if k != "tag"} for r in inputs])
    outs = {}
    for cfg in configs:
        bindir = core.build_harness(cfg, profile=profile, bins=[binary])
        outp = os.path.join(wd, "%s-out-%s.ndjson" % (name, cfg.replace("+", "_")))
        core.run([os.path.join(bindir, binary), "--in", inp, "--out", outp], timeout=1800)
        outs[cfg] = core.read_ndjson(outp)
        if len(outs[cfg]) != len(inputs):
            raise core.ToolError("%s returned %d records for %d inputs" % (binary, len(outs[cfg]), len(inputs)))
    return outs


CHUNK = int(os.environ.get("VERIF_CHUNK", "30000"))     # ndJsonDeserialize + per-record behaviours scale badly beyond a few 10^4 records per TLC run


class _Merged:
    def __init__(self):
        self.distinct = 0
        self.generated = 0
        self.cmd = ""
        self.prints = []


def tlc_records(wd, module, recs, name, env=None, timeout=3000):
    verdicts = {}
    merged = _Merged()
    for c in range(0, max(1, len(recs)), CHUNK):
        part = recs[c:c + CHUNK]
        suffix = "" if len(recs) <= CHUNK else "-%d" % (c // CHUNK)
        path = os.path.join(wd, name + suffix + "-records.ndjson")
        core.write_ndjson(path, part)
        e = {"VERIF_RECORDS": path}
        e.update(env or {})
        res = core.tlc(os.path.join(core.SPEC, "cf", module + ".tla"), os.path.join(core.SPEC, "cf", module + ".cfg"),
                       name + suffix, env=e, coverage=False, timeout=timeout)
        v = {p["id"]: p for p in res.prints if isinstance(p, dict) and "id" in p}
        bad = core.tlc_fatal(res)
        if bad or len(v) != len(part):
            raise core.ToolError("TLC did not adjudicate every record (%d of %d); errors: %s; see %s" %
                                 (len(v), len(part), bad[:3], os.path.join(core.WORK, "tlc-" + name + suffix + ".log")))
        verdicts.update(v)
        merged.distinct += res.distinct
        merged.generated += res.generated
        merged.cmd = res.cmd
        merged.prints += res.prints
    return verdicts, merged


def c11_known(key):
    """C11 findings are keyed by call-site class: implementation, w, trunc and either an exact q or a lower bound q_ge"""
    for k in core.load_known():
        if k.get("status") != "open" or k.get("property") != "C11":
            continue
        kk = k["key"]
        if kk.get("impl") == key["impl"] and kk.get("w") == key["w"] and kk.get("trunc") == key["trunc"] \
                and kk.get("outcome") == key["outcome"] \
                and (("q" in kk and kk["q"] == key["q"]) or ("q_ge" in kk and key["q"] >= kk["q_ge"])):
            return k
    return None


def mc_moderate(tier):
    """the stage contract on the algorithm models (small format); the pre-repair Bellerophon must violate it"""
    out = {}
    suffix = "" if tier == "quick" else "_full"
    for v in ("lemire", "bellerophon"):
        r = core.tlc(os.path.join(core.SPEC, "mc", "MC_Moderate.tla"), os.path.join(core.SPEC, "mc", "MC_Moderate_%s%s.cfg" % (v, suffix)),
                     "C11-mc-" + v, coverage=False, cont=True, timeout=6000)
        if core.tlc_fatal(r) or r.distinct == 0:
            raise core.ToolError("MC_Moderate %s failed: %s" % (v, core.tlc_fatal(r)[:2]))
        if r.invariant_violations or [p for p in r.prints if isinstance(p, dict)]:
            raise core.ToolError("MC_Moderate %s: the algorithm MODEL violates the stage contract: %s" % (v, r.prints[:2]))
        out[v] = {"states": r.distinct, "transitions": r.generated}
    r = core.tlc(os.path.join(core.SPEC, "mc", "MC_Moderate.tla"), os.path.join(core.SPEC, "mc", "MC_Moderate_original.cfg"),
                 "C11-mc-original", coverage=False, cont=True, timeout=3000)
    nviol = len({json.dumps(p, sort_keys=True) for p in r.prints if isinstance(p, dict)})
    if nviol == 0:
        raise core.ToolError("vacuity: the pre-repair Bellerophon model should violate the contract (finding F1) but MC_Moderate found nothing")
    out["original_bellerophon_violations_found"] = nviol
    return out


def c11(tier):
    t0 = time.time()
    wd = core.workdir("C11")
    mcm = mc_moderate(tier)
    inputs = []
    for F in (gen.F64, gen.F32):
        inputs += gen.g_moderate(F, gen.rng_for("C11" + F.name), tier)
    for k, r in enumerate(inputs):
        r["id"] = k + 1
    cfgs = ["std", "std+compact"] if tier == "quick" else ["std", "std+compact", "none", "compact", "std+alloc", "compact+alloc"]
    outs = run_records(wd, "run_moderate", inputs, cfgs)
    recs = []
    for k, r in enumerate(inputs):
        m = {"id": r["id"], "fmt": r["fmt"], "w": r["w"], "q": r["q"], "trunc": r["trunc"], "outs": []}
        for cfg in cfgs:
            o = outs[cfg][k]["res"]
            m["outs"].append({"cfg": cfg, "kind": o["kind"], "valid": o["valid"], "mant": o["mant"], "exp": o["exp"],
                              "bits": o["bits"]})
        recs.append(m)
    verdicts, res = tlc_records(wd, "CF_Moderate", recs, "C11")
    violations, known, drift = [], set(), 0
    outcome = collections.Counter()
    actions = collections.Counter()
    by_id = {r["id"]: r for r in inputs}
    for rid, v in verdicts.items():
        r = by_id[rid]
        for k, c in enumerate(v["trail"][:len(cfgs)]):
            outcome["%s:%s:%s" % (r["fmt"], "bellerophon" if "compact" in cfgs[k] else "lemire", c)] += 1
        if v["verdict"] == "ok":
            if "DRIFT" in v["trail"]:
                drift += 1
            for tags in json.loads(v["trail"][-1]):
                for a in tags:
                    actions[a] += 1
        else:
            # one finding per (input, implementation of the stage) whose contract outcome is bad
            for k, c in enumerate(v["trail"][:len(cfgs)]):
                if c not in ("wrong", "wrong_interval", "panic"):
                    continue
                key = {"fmt": r["fmt"], "impl": "bellerophon" if "compact" in cfgs[k] else "lemire",
                       "w": str(core.from_limbs(r["w"])), "q": r["q"], "trunc": r["trunc"], "outcome": c}
                kf = c11_known(key)
                if kf:
                    known.add("%s" % kf.get("what", ""))
                else:
                    violations.append(core.write_replay("C11", {"property": "C11", "input": key, "config": cfgs[k],
                                                                "record": recs[rid - 1], "verdict": v}))
    # "declined" must also be HONOURED: every triple the stage declined in some configuration (and a sample of the
    # others) is spelled as text and parsed end to end; a wrong float there means the decline was taken for an answer
    declined = [r for r, m in zip(inputs, recs) if any(o["kind"] == "value" and not o["valid"] for o in m["outs"])
                and core.from_limbs(r["w"]) < 10 ** 19]
    rng = gen.rng_for("C11e2e")
    others = [r for r in inputs if core.from_limbs(r["w"]) < 10 ** 19 and core.from_limbs(r["w"]) > 0]
    e2e_src = declined + rng.sample(others, min(len(others), 300 if tier == "quick" else 5000))
    e2e = []
    for r in e2e_src:
        w = str(core.from_limbs(r["w"]))
        if r["trunc"] and len(w) == 19:
            e2e.append(gen.mk(r["fmt"], w, "5", r["q"], "C11:e2e-trunc"))
            e2e.append(gen.mk(r["fmt"], w, "0" * 30 + "1", r["q"], "C11:e2e-trunc"))
        elif not r["trunc"]:
            e2e.append(gen.mk(r["fmt"], w, "", r["q"], "C11:e2e"))
    e2e = gen.normalise(gen.dedup(e2e))
    e2e_bad = 0
    if e2e:
        outs2 = parsecheck.run_impl(wd, e2e, cfgs, name="e2e")
        merged = parsecheck.merge(e2e, outs2)
        verd2, _, res2 = parsecheck.adjudicate(wd, merged, {"VALUE"}, "C11-e2e")
        for rid, v in verd2.items():
            if v["verdict"] == "impl_violates":
                e2e_bad += 1
                violations.append(core.write_replay("C11", {"property": "C11", "what": "the stage declined (or answered) and the caller "
                                                            "returned a wrong float for the same digits", "input": parsecheck.describe(e2e[rid - 1]),
                                                            "record": merged[rid - 1], "verdict": v}))
            elif v["verdict"] not in ("ok",):
                raise core.ToolError("C11 end-to-end record not adjudicated: %s" % v)
    known = sorted(known)
    tags = collections.Counter(r["tag"] for r in inputs)
    cov = {
        "states": res.distinct, "transitions": res.generated, "end_to_end_records": len(e2e), "declined_triples_parsed": len(declined),
        "traces_validated_against_impl": len(recs) * len(cfgs),
        "evaluations": len(recs) * len(cfgs),
        "distinct_nontrivial": len({(r["fmt"], str(r["w"]), r["q"], r["trunc"]) for r in inputs}),
        "rule": "(w,q,truncated) triples: w = first 17..20 digits of exact float midpoints (+-1) for every / sampled "
                "exponent field, exact ties inside the tie window, special w and q at every short-circuit, random; "
                "each run through moderate_path in default (Eisel-Lemire) and compact (Bellerophon) builds; TLC decides "
                "the contract with IEEE!Judge on w*10^q and on the upper end (w+1)*10^q; every declined triple is also parsed end to "
                "end as text (the decline must be honoured by the caller)",
        "samples": [{"fmt": r["fmt"], "w": str(core.from_limbs(r["w"])), "q": r["q"], "trunc": r["trunc"], "tag": r["tag"]}
                    for r in inputs[:: max(1, len(inputs) // 8)]][:10],
        "families": dict(tags), "contract_outcomes": dict(outcome), "model_actions": dict(actions),
        "model_vs_impl_drift": drift, "configs": cfgs, "tlc_cmd": res.cmd, "exhaustive": False,
        "mc_moderate": mcm,
    }
    cov["states"] += sum(v["states"] for v in mcm.values() if isinstance(v, dict))
    cov["transitions"] += sum(v["transitions"] for v in mcm.values() if isinstance(v, dict))
    core.write_evidence("C11", tier, "model_checking", cov, time.time() - t0, len(violations),
                        assumptions=["release profile (value property); TLC + BigNat + IEEE oracle trusted as in C01"])
    if drift:
        core.log("NOTE: %d records where the algorithm model and the implementation differ in an internal field (DRIFT)" % drift)
    core.finish("C11", violations, known)


CHECKS["C11"] = c11


# ----------------------------------------------------------------- C09 / C10

def order_check(prop, tier, groups, cfgs, rule):
    t0 = time.time()
    wd = core.workdir(prop)
    flat = []
    for g in groups:
        for m in g["members"]:
            flat.append({"id": len(flat) + 1, "fmt": g["fmt"], "int": m["int"], "frac": m["frac"], "exp": m["exp"]})
    flat = gen.normalise(flat)
    outs = parsecheck.run_impl(wd, flat, cfgs)
    recs = []
    pos = 0
    for g in groups:
        mem = []
        for m in g["members"]:
            f = flat[pos]
            mem.append({"int": f["int"], "frac": f["frac"], "exp": f["exp"],
                        "outs": [{"cfg": c, "kind": outs[c][pos]["out"]["kind"], "bits": outs[c][pos]["out"]["bits"]} for c in cfgs]})
            pos += 1
        recs.append({"id": g["id"], "kind": g["kind"], "fmt": g["fmt"], "members": mem})
    verdicts, res = tlc_records(wd, "CF_Order", recs, prop)
    violations, tool = [], []
    trails = collections.Counter()
    for rid, v in verdicts.items():
        trails[" > ".join(v["trail"])] += 1
        if v["verdict"] == "impl_violates":
            r = recs[rid - 1]
            violations.append(core.write_replay(prop, {"property": prop, "record": r, "verdict": v,
                                                       "members": [{"int": core.segs_str(m["int"]), "frac": core.segs_str(m["frac"]),
                                                                    "exp": m["exp"], "bits": [hex(core.from_limbs(o["bits"])) for o in m["outs"]]}
                                                                   for m in r["members"]]}))
        elif v["verdict"] != "ok":
            tool.append((rid, v))
    tags = collections.Counter(g["tag"] for g in groups)
    paths = parsecheck.path_histogram(outs)
    # a chain/group is non-trivial when its members were resolved by more than one internal path
    nontriv = 0
    pos = 0
    for g in groups:
        ps = set()
        for _ in g["members"]:
            ps.add(outs[cfgs[0]][pos].get("path"))
            pos += 1
        if len(ps) > 1:
            nontriv += 1
    cov = {
        "states": res.distinct, "transitions": res.generated,
        "traces_validated_against_impl": len(recs),
        "evaluations": len(flat) * len(cfgs), "distinct_nontrivial": nontriv,
        "rule": rule + "; non-trivial = members resolved by more than one internal path (fast / moderate / slow)",
        "samples": [{"kind": g["kind"], "tag": g["tag"], "members": [[core.segs_str(gen.core.segs(m["int"]) if isinstance(m["int"], str) else m["int"], 30),
                                                                         core.segs_str(gen.core.segs(m["frac"]) if isinstance(m["frac"], str) else m["frac"], 30), m["exp"]]
                                                                        for m in g["members"][:6]]} for g in groups[:: max(1, len(groups) // 5)]][:6],
        "families": dict(tags), "impl_paths": paths, "spec_trails": dict(trails), "configs": cfgs, "members": len(flat),
        "tlc_cmd": res.cmd, "exhaustive": False,
    }
    core.write_evidence(prop, tier, "model_checking", cov, time.time() - t0, len(violations),
                        assumptions=["the order / equality claim of every chain / group is re-derived by TLC by exact comparison; "
                                     "no rounding oracle involved"])
    if tool:
        raise core.ToolError("%d chains/groups with an unverifiable claim, e.g. %s" % (len(tool), tool[0]))
    core.finish(prop, violations, [])


def c09(tier):
    groups = []
    for F in (gen.F64, gen.F32):
        groups += gen.g_chains(F, gen.rng_for("C09" + F.name), tier)
    for k, g in enumerate(groups):
        g["id"] = k + 1
    cfgs = ["std", "std+compact"] if tier == "quick" else ["std", "std+compact", "none", "compact+alloc"]
    order_check("C09", tier, groups, cfgs,
                "ascending chains (successive significands, last digits, exponents, far-out digits, midpoint neighbourhoods) "
                "across every algorithm switch-over, f32 and f64; TLC verifies the order claim exactly and that bits never descend")


def c10(tier):
    groups = []
    for F in (gen.F64, gen.F32):
        groups += gen.g_groups(F, gen.rng_for("C10" + F.name), tier)
    for k, g in enumerate(groups):
        g["id"] = k + 1
    cfgs = ["std", "std+compact"] if tier == "quick" else ["std", "std+compact", "none", "compact+alloc"]
    order_check("C10", tier, groups, cfgs,
                "groups: one digit sequence x every split point x appended fraction zeros x digits moved into the exponent; "
                "TLC verifies the members denote the same number and that all bits in a group are identical")


CHECKS["C09"] = c09
CHECKS["C10"] = c10


# ----------------------------------------------------------------------- C03

def float_bits_corpus(F, rng, tier):
    q = tier == "quick"
    out = []
    fields = list(range(0, F.emaxfield))
    if q:
        keep = {0, 1, 2, F.emaxfield - 1, F.bias, F.bias + 1, F.bias - 1}
        fields = sorted(keep | set(rng.sample(fields, 150 if F.name == "f64" else 100)))
    for ef in fields:
        pats = gen.sig_patterns(F, rng, 2 if q else 8)
        for fr in (rng.sample(pats, 4) if q else rng.sample(pats, 8)):
            out.append((ef << F.mbits) | fr)
    if q:
        # EVERY exponent field gets at least one random significand (a shortcut that is wrong in one binade only -
        # a particular power of ten times a particular range of w - is otherwise sampled with probability 150 / 2046)
        for ef in range(0, F.emaxfield):
            out.append((ef << F.mbits) | rng.getrandbits(F.mbits))
    out += [0, 1, 2, F.infbits - 1]
    return sorted(set(out))


def c03(tier):
    wd = core.workdir("C03-render")
    floats = []
    for F in (gen.F64, gen.F32):
        for b in float_bits_corpus(F, gen.rng_for("C03" + F.name), tier):
            floats.append({"fmt": F.name, "bits": core.limbs(b)})
    # floats whose shortest rendering is a SHORT decimal (k e n, k <= 4 digits): these are the floats whose shortest form can
    # sit extremely close to a rounding boundary of the parser's extended-precision product
    import struct
    rng = gen.rng_for("C03short")
    for _ in range(15000 if tier == "quick" else 100000):
        k = rng.randrange(1, 10 ** rng.choice([1, 2, 3, 4]))
        n = rng.randrange(-325, 305)
        try:
            x = float("%de%d" % (k, n))
        except (OverflowError, ValueError):
            continue
        if x != x or x in (float("inf"), 0.0):
            continue
        floats.append({"fmt": "f64", "bits": core.limbs(struct.unpack("<Q", struct.pack("<d", x))[0]), "only": "shortest"})
    # the floats nearest d x 10^q for every digit d and every decimal exponent q of each format, and short f32 decimals
    for F, fmtc, qlo, qhi in ((gen.F64, "<d", -324, 309), (gen.F32, "<f", -46, 39)):
        cands = [(d, n) for n in range(qlo, qhi) for d in range(1, 10)]
        if F.name == "f32":
            cands += [(rng.randrange(1, 10 ** rng.choice([2, 3, 4])), rng.randrange(-48, 36)) for _ in range(3000 if tier == "quick" else 30000)]
        for (k, n) in cands:
            try:
                x = float("%de%d" % (k, n))
                raw = struct.pack(fmtc, x)
            except (OverflowError, ValueError):
                continue
            b = int.from_bytes(raw, "little")
            if 0 < b < F.infbits:
                floats.append({"fmt": F.name, "bits": core.limbs(b), "only": "shortest"})
    # floats next to w x 10^q with w x 5^q at a power of two (q = 0..27): rendered with 17 digits they are the inputs of
    # "exact integer product" shortcuts and 64-bit overflow tests
    for F, fmtc in ((gen.F64, "<d"), (gen.F32, "<f")):
        th = gen.pow5_thresholds(F, rng)
        for (w, qq) in (th[:: 3] if tier == "quick" else th):
            try:
                raw = struct.pack(fmtc, float("%de%d" % (w, qq)))
            except (OverflowError, ValueError):
                continue
            b = int.from_bytes(raw, "little")
            if 0 < b < F.infbits:
                floats.append({"fmt": F.name, "bits": core.limbs(b)})
    # floats whose shortest rendering takes the disguised fast path with a scaled significand that wraps 64 bits
    for (m, qq) in gen.disguised_wrap(gen.F64, rng, 6 if tier == "quick" else 200):
        x = float("%de%d" % (m, qq))
        floats.append({"fmt": "f64", "bits": core.limbs(struct.unpack("<Q", struct.pack("<d", x))[0]), "only": "shortest"})
    # floats whose SHORTEST rendering is a 15..17-digit decimal for which Eisel-Lemire's second multiplication runs and
    # carries (gen.lemire_refined, per decimal exponent): the renderings closest to a rounding boundary of the product
    nref = 0
    for (w, qq, ev) in gen.lemire_refined(gen.F64, gen.rng_for("C03refine"), 3 if tier == "quick" else 12, 10000 if tier == "quick" else 60000):
        if len(str(w)) > 17:
            continue
        try:
            x = float("%de%d" % (w, qq))
        except (OverflowError, ValueError):
            continue
        if x == 0.0 or x == float("inf"):
            continue
        digs = repr(x).split("e")[0].replace(".", "").strip("0")
        if digs == str(w).strip("0"):
            nref += 1
            floats.append({"fmt": "f64", "bits": core.limbs(struct.unpack("<Q", struct.pack("<d", x))[0]), "only": "shortest"})
    core.log("C03: %d floats whose shortest rendering needs the refined product" % nref)
    inp = os.path.join(wd, "floats.ndjson")
    core.write_ndjson(inp, floats)
    bindir = core.build_harness("std", bins=["gen_render"])
    outp = os.path.join(wd, "renderings.ndjson")
    core.run([os.path.join(bindir, "gen_render"), "--in", inp, "--out", outp], timeout=600)
    inputs = core.read_ndjson(outp)
    for r in inputs:
        r["tag"] = "C03:" + r["render"]
    cfgs = ["std", "std+compact"] if tier == "quick" else ["std", "std+compact", "none", "compact", "std+alloc"]
    parsecheck.parse_property_check(
        "C03", tier, inputs, cfgs, {"VALUE", "EXPECT"},
        rule="finite non-negative floats: every (sampled in quick) exponent field x significand patterns {0,1,2,max,max-1,"
             "alternating, half, random}, f32 and f64, each rendered by Rust's formatter as shortest, 9/17 significant digits and "
             "exact expansion; TLC validates the rendering against the model first, then requires the parse result to be x",
        level_note="renderings come from Rust's std formatter but are validated by TLC (a bad rendering is a tool error); "
                   "2^31 / 2^63 floats are not enumerated",
        extra_cov={"floats": len(floats)})


# --------------------------------------------------------- C04 C05 C06 C07 C15

def long_corpus(F, tier, name):
    rng = gen.rng_for(name)
    q = tier == "quick"
    recs = [r for r in gen.g_midpoints(F, rng, tier, nexp=16 if q else 250, nrand=1 if q else 3)
            if r["tag"].split(":")[1] in ("far1", "nines", "zeros", "exact", "last+1", "last-1", "trunc", "truncup")]
    recs = [r for r in recs if len(r["int"]) + len(r["frac"]) > 19]
    recs += gen.g_runs(F, rng, 100 if q else 4000)
    recs += gen.g_int_ties(F, rng, 30 if q else 600)
    recs += gen.g_budget_splits(F, rng, tier)
    recs += gen.g_sticky_positions(F, rng, tier)
    recs += gen.g_long_pos_ties(F, rng, tier)
    recs += gen.g_limb_crossers(F, rng, tier)
    big = 100000 if q else 1000000
    # exact ties with a far-out digit / tails of every length class
    for ef in rng.sample(range(1, F.emaxfield), 5 if q else 80):
        bits = (ef << F.mbits) | rng.choice(gen.sig_patterns(F, rng, 2))
        M, k = F.midpoint(bits)
        ds, e10 = gen.exact_decimal(M, k)
        for z in ([1000, big] if q else [1000, 10000, 100000, big]):
            tailz = [{"d": [0], "n": z}]
            base = core.segs(ds)
            recs.append(gen.mk(F.name, [], base + tailz + [{"d": [1], "n": 1}], e10 + len(ds), "C06:far-digit"))
            recs.append(gen.mk(F.name, [], base + tailz, e10 + len(ds), "C06:far-zeros"))
            recs.append(gen.mk(F.name, base + tailz + [{"d": [1], "n": 1}], [], e10 - z - 1, "C06:far-digit-int"))
            recs.append(gen.mk(F.name, base + tailz, [], e10 - z, "C06:far-zeros-int"))
            lower = core.segs(str(int(ds) - 1))
            recs.append(gen.mk(F.name, [], lower + [{"d": [9], "n": z}], e10 + len(ds), "C06:nines"))
            recs.append(gen.mk(F.name, lower[:1] if False else [], [{"d": [0], "n": 7}] + lower + [{"d": [9], "n": z}], e10 + len(ds) + 7, "C06:nines-lead0"))
    return gen.normalise(gen.dedup(recs))


def mc_slow_limbs(tier):
    """refinement: limb-level slow path (BigintOps) = value-level slow path (Slow.tla) on a small format"""
    t0 = time.time()
    r = core.tlc(os.path.join(core.SPEC, "mc", "MC_SlowLimbs.tla"),
                 os.path.join(core.SPEC, "mc", "MC_SlowLimbs.cfg" if tier == "quick" else "MC_SlowLimbs_full.cfg"), "C06-mc-slowlimbs",
                 coverage=False, cont=True, timeout=6000)
    prints = [p for p in r.prints if isinstance(p, dict)]
    bad = [p for p in prints if p.get("verdict") not in ("fast", "moderate", "slow:refines")]
    if core.tlc_fatal(r) or r.distinct == 0 or bad or r.invariant_violations:
        raise core.ToolError("MC_SlowLimbs: the limb-level slow path does not refine the value-level one: %s %s" % (core.tlc_fatal(r)[:2], bad[:2]))
    cats = collections.Counter(p["verdict"] for p in prints)
    if cats.get("slow:refines", 0) == 0:
        raise core.ToolError("vacuity: MC_SlowLimbs never reached the slow path")
    return {"module": "MC_SlowLimbs", "states": r.distinct, "transitions": r.generated, "inputs": r.distinct // 2,
            "sampled_outcomes": dict(cats), "wall_s": round(time.time() - t0, 1)}


def c06(tier):
    cfgs = ["std", "std+compact", "std+alloc"] if tier == "quick" else core.ALL_CONFIGS
    mc = mc_slow_limbs(tier)
    inputs = long_corpus(gen.F64, tier, "C06f64") + long_corpus(gen.F32, tier, "C06f32")
    inputs = gen.normalise(inputs)
    parsecheck.parse_property_check(
        "C06", tier, inputs, cfgs, {"VALUE", "MODEL"},
        rule="inputs with 20 .. 10^6 significant digits: midpoint expansions with far-out digits, tails of 9s, trailing zeros, "
             "truncations around 19 digits and MAX_DIGITS; run-structured strings over the three truncation mechanisms; "
             "integer-only, fraction-only with leading zeros, split; oracle uses the first 800 digits + tail flag (exact)",
        level_note="as C01; digit strings cross to TLC in run-length form and are never expanded beyond 800 digits", mc=mc)


def range_corpus(F, tier, name):
    rng = gen.rng_for(name)
    q = tier == "quick"
    recs = gen.g_seams(F, rng) + gen.g_extremes(F, rng, big=20000 if q else 1000000)
    recs = [r for r in recs if r["tag"].startswith(("G4:end", "G5"))]
    # every subnormal exponent position and the top binades
    for k in (range(0, F.mbits + 2, 7) if q else range(0, F.mbits + 2)):
        frs = sorted({1 << min(k, F.mbits - 1), (1 << min(k, F.mbits - 1)) + 1, max(1, (1 << min(k, F.mbits - 1)) - 1)})
        for fr in (frs[:2] if q else frs):
            for r in gen.midpoint_variants(F, fr, rng, tier):
                r["tag"] = "C07:subnormal:" + r["tag"].split(":")[1]
                recs.append(r)
    for r in gen.g_low_decade(F, rng, tier, 0, 1 if q else 6):
        r["tag"] = "C07:lowdecade:" + r["tag"].split(":")[1]
        recs.append(r)
    recs += gen.g_beyond_range(F, rng, 1 if q else 5)
    recs += gen.g_subnormal_neighbours(F, rng, tier)
    # the inputs on which Eisel-Lemire itself declines (low product word all ones): the only way an out-of-range or
    # far-subnormal SHORT input reaches the big-integer path of the table-driven builds
    recs += gen.g_lo_ones(F, rng, tier)
    for ef in (F.emaxfield - 1, F.emaxfield - 2, 1, 2):
        for fr in ((0, (1 << F.mbits) - 1) if q else (0, 1, (1 << F.mbits) - 1, (1 << F.mbits) - 2)):
            for r in gen.midpoint_variants(F, (ef << F.mbits) | fr, rng, tier):
                r["tag"] = "C07:edge:" + r["tag"].split(":")[1]
                recs.append(r)
    return gen.normalise(gen.dedup(recs))


def c07(tier):
    cfgs = ["std", "std+compact"] if tier == "quick" else core.ALL_CONFIGS
    inputs = gen.normalise(range_corpus(gen.F64, tier, "C07f64") + range_corpus(gen.F32, tier, "C07f32"))
    parsecheck.parse_property_check(
        "C07", tier, inputs, cfgs, {"VALUE", "MODEL"},
        rule="range ends: every subnormal exponent position x {2^k, 2^k+-1} midpoints in all variants, top/bottom binades, "
             "2^-1075 / 2^-1074 / 2^-1022 / 2^1024-2^970 (f32 analogues) +-1 digit and far-out digits, zero significands x "
             "every exponent class, exponents to the i32 limits with compensating digit strings",
        level_note="as C01; the oracle's inf / zero clauses are the thresholds the property names")


def c05(tier):
    cfgs = ["std", "std+compact", "std+alloc", "none", "compact+alloc"] if tier == "quick" else core.ALL_CONFIGS
    inputs = []
    for F in (gen.F64, gen.F32):
        rng = gen.rng_for("C05" + F.name)
        q = tier == "quick"
        inputs += gen.g_plain(F, rng, 80 if q else 3000)
        inputs += gen.g_midpoints(F, rng, tier, nexp=12 if q else 300, nrand=1 if q else 3)
        inputs += gen.g_seams(F, rng)[:: 3 if q else 1]
        inputs += gen.g_short_ties(F, rng, 1 if q else 10)[:: 4 if q else 1]
        inputs += gen.g_low_decade(F, rng, tier, 4 if q else 300, 1 if q else 4)[:: 2 if q else 1]
        inputs += gen.g_every_decade(F, rng, 2 if q else 1, 1 if q else 4)
        inputs += gen.g_extremes(F, rng, big=20000)[:: 2 if q else 1]
        inputs += gen.g_runs(F, rng, 40 if q else 2000)
        inputs += gen.g_carry(F, rng, tier)[:: 3 if q else 1]
        inputs += gen.g_exact_products(F, rng, tier)[:: 4 if q else 1]
        inputs += gen.g_tie_digit_counts(F, rng, tier)
        inputs += gen.g_pow2_digits(F, rng, tier)
        inputs += gen.g_trailing_zeros(F, rng, tier)
        inputs += gen.g_pow10_thresholds(F, rng, tier)
        inputs += gen.g_limb_crossers(F, rng, tier)[:: 3 if q else 1]
        inputs += gen.g_sparse_bigmant(F, rng, 6 if q else 100) if F.name == "f64" else []
        inputs += gen.g_zero_limbs(F, rng, tier)[:: 3 if q else 1]
    inputs = gen.normalise(gen.dedup(inputs))
    parsecheck.parse_property_check(
        "C05", tier, inputs, cfgs, {"AGREE", "VALUE"},
        rule="every input is run in separately compiled feature configurations and joined by id; TLC requires pairwise "
             "identical outcome and bits (and, in the same run, equality with the oracle)",
        level_note="no oracle is needed for the agreement verdict; configurations are separate cargo builds of the harness "
                   "with the features forwarded to /repo")


def c15(tier):
    cfgs = ["std", "std+compact", "none", "compact"]
    extra = ["std+alloc"] if tier != "quick" else []
    inputs = []
    for F in (gen.F64, gen.F32):
        rng = gen.rng_for("C15" + F.name)
        q = tier == "quick"
        inputs += gen.g_midpoints(F, rng, tier, nexp=40 if q else 400, nrand=1)
        inputs += gen.g_runs(F, rng, 80 if q else 1500)
        inputs += gen.g_seams(F, rng)[:: 3 if q else 1]
        inputs += gen.g_extremes(F, rng, big=20000)
    inputs = gen.dedup(inputs)
    # the same inputs through iterators that do not know their length (filter; a hand-written iterator with
    # size_hint (0, None)): code that copies the digits "when the iterator is not a slice" allocates only then
    inputs = gen.normalise([dict(r, shape=sh) for sh in (0, 2, 5) for r in inputs])
    parsecheck.parse_property_check(
        "C15", tier, inputs, cfgs + extra, {"ALLOCS", "NOPANIC"},
        rule="allocation requests (alloc/alloc_zeroed/realloc) counted by a #[global_allocator] in the harness around each "
             "parse_float call, per thread; configurations without the alloc feature must show 0; inputs chosen so that the "
             "big-integer path (incl. long multiplication by 5^135) is reached; every input through slice iterators, through "
             "`filter` and through a hand-written iterator with size_hint (0, None)",
        level_note="instrument: counting global allocator (the specification fixes what is permitted: allocs = 0 unless alloc); "
                   "alloc builds are recorded informationally")


def c04(tier):
    cfgs = ["std", "std+compact", "std+alloc"] if tier == "quick" else ["std", "std+compact", "std+alloc", "none", "compact", "compact+alloc"]
    inputs = []
    for F in (gen.F64, gen.F32):
        rng = gen.rng_for("C04" + F.name)
        q = tier == "quick"
        inputs += gen.g_plain(F, rng, 100 if q else 2000)
        inputs += gen.g_midpoints(F, rng, tier, nexp=25 if q else 300, nrand=1)
        inputs += gen.g_seams(F, rng)[:: 2 if q else 1]
        inputs += gen.g_extremes(F, rng, big=100000 if q else 1000000)
        inputs += gen.g_beyond_range(F, rng, 1 if q else 4)
        inputs += gen.g_int_ties(F, rng, 20 if q else 400)
        inputs += gen.g_runs(F, rng, 100 if q else 2500)
        inputs += gen.g_zero_limbs(F, rng, tier)
        inputs += gen.g_budget_splits(F, rng, tier)[:: 4 if q else 1]
        inputs += gen.g_carry(F, rng, tier)[:: 4 if q else 1]
        inputs += gen.g_tie_digit_counts(F, rng, tier)
    inputs = gen.normalise(gen.dedup(inputs))
    parsecheck.parse_property_check(
        "C04", tier, inputs, cfgs, {"NOPANIC", "MODEL", "VALUE"}, profiles=("release", "checked"),
        rule="valid inputs of length 0 .. 10^6 and exponents over the whole i32 range, run in release and in a dev profile "
             "with debug-assertions and overflow-checks (catch_unwind per call); TLC validates that each input is valid and "
             "that the outcome is a value; the model (MinLex) is run alongside and must raise no debug assertion and stay "
             "within 62 limbs",
        level_note="instrument: catch_unwind + process exit status; the model supplies the permitted outcome (value) and the "
                   "limb-capacity measurement")


CHECKS.update({"C03": c03, "C04": c04, "C05": c05, "C06": c06, "C07": c07, "C15": c15})


# ------------------------------------------------------------- C14 C17 C18

def parts_adjudicate(prop, wd, recs, name):
    for k, r in enumerate(recs):
        r["id"] = k + 1
    verdicts, res = tlc_records(wd, "CF_Parts", recs, name)
    bad = []
    trails = collections.Counter()
    drift = 0
    for rid, v in verdicts.items():
        trails[" > ".join(t for t in v["trail"] if t not in ("DRIFT", "conforms"))] += 1
        if "DRIFT" in v["trail"]:
            drift += 1
        if v["verdict"] != "ok":
            bad.append((recs[rid - 1], v))
    return bad, trails, drift, res


def c14(tier):
    t0 = time.time()
    wd = core.workdir("C14")
    cfgs = ["std", "std+compact", "compact", "none"] if tier == "quick" else core.ALL_CONFIGS
    recs = []
    per_cfg = {}
    for cfg in cfgs:
        bindir = core.build_harness(cfg, bins=["run_parts"])
        outp = os.path.join(wd, "tables-%s.ndjson" % cfg.replace("+", "_"))
        core.run([os.path.join(bindir, "run_parts"), "--mode", "tables", "--out", outp], timeout=300)
        got = core.read_ndjson(outp)
        per_cfg[cfg] = len(got)
        # completeness: the set of (name, index) each configuration must provide
        names = collections.Counter(r["name"] for r in got)
        if "compact" in cfg:
            want = {"b_small": 10, "b_small_exp": 10, "b_small_int": 10, "b_large": 66, "b_large_exp": 66, "b_step": 1,
                    "b_bias": 1, "b_small_len": 1, "b_large_len": 1, "b_small_int_len": 1}
            if "std" not in cfg:
                want.update({"libm_powf": 11, "libm_powd": 23})
        else:
            want = {"p5_hi": 651, "p5_lo": 651, "p5_min": 1, "p5_max": 1, "p5_len": 1, "int_pow5": 28, "int_pow10": 20,
                    "f32_pow10": 11, "f64_pow10": 23, "large_pow5": 1, "large_pow5_step": 1}
        want.update({"fn_f32_pow10": 11, "fn_f64_pow10": 23, "fn_int_pow5": 28, "fn_int_pow10": 20})
        if dict(names) != want:
            raise core.ToolError("table dump of %s incomplete: %s vs %s" % (cfg, dict(names), want))
        recs += got
    # the spelling of 5^135 for 32-bit limbs is compiled out on this host (cfg(target_pointer_width)): it is read from the
    # source text and judged by TLC like the dumped one (same record type, configuration "source:u32-limbs")
    import re
    src_consts = 0
    try:
        text = open(os.path.join(core.REPO, "src", "table_small.rs")).read()
    except OSError:
        text = ""
    for mm in re.finditer(r"pub const LARGE_POW5:\s*\[u32;\s*(\d+)\]\s*=\s*\[([^\]]*)\]", text):
        vals = [int(x.replace("_", ""), 0) for x in mm.group(2).replace("\n", " ").split(",") if x.strip()]
        if len(vals) == int(mm.group(1)) and all(0 <= v < (1 << 32) for v in vals):
            recs.append({"cfg": "source:u32-limbs", "index": 0, "name": "large_pow5", "t": "table",
                         "value": core.limbs(sum(v << (32 * k) for k, v in enumerate(vals)))})
            src_consts += 1
    if not src_consts:
        core.log("NOTE: no 32-bit-limb spelling of LARGE_POW5 found in src/table_small.rs (source-level datum skipped)")
    per_cfg["source:u32-limbs"] = src_consts
    # MC part: every datum of the specification's data module against its definition
    mc = core.tlc(os.path.join(core.SPEC, "mc", "MC_Tables.tla"), os.path.join(core.SPEC, "mc", "MC_Tables.cfg"),
                  "C14-mc", coverage=False, cont=False, timeout=600)
    if mc.errors or mc.distinct == 0:
        raise core.ToolError("MC_Tables failed: %s" % mc.errors[:3])
    bad, trails, _, res = parts_adjudicate("C14", wd, recs, "C14")
    violations = [core.write_replay("C14", {"property": "C14", "datum": r, "verdict": v}) for (r, v) in bad]
    cov = {
        "states": res.distinct + mc.distinct, "transitions": res.generated + mc.generated,
        "traces_validated_against_impl": len(recs), "evaluations": len(recs),
        "distinct_nontrivial": len({(r["cfg"], r["name"], r["index"]) for r in recs}),
        "rule": "every power constant reachable in each configuration (tables, Bellerophon significands + exponents, on-demand "
                "u64::pow through the hook, pow_fast_path via table / std powf / bundled libm) is dumped and compared by TLC with "
                "Tables.tla, whose data module is itself proved against the definitions by MC_Tables (multiplication only)",
        "samples": [recs[0], recs[len(recs) // 2], recs[-1]],
        "per_config": per_cfg, "spec_trails": dict(trails), "mc_tables_states": mc.distinct,
        "configs": cfgs, "tlc_cmd": res.cmd, "exhaustive": True,
    }
    core.write_evidence("C14", tier, "model_checking", cov, time.time() - t0, len(violations),
                        assumptions=["finite and complete per configuration; definitions are those of etc/*.py restated in Tables.tla"])
    core.finish("C14", violations, [])


def field_patterns(F, rng, tier):
    q = tier == "quick"
    out = []
    fields = list(range(0, F.emaxfield + 1))
    if q:
        fields = sorted({0, 1, 2, F.emaxfield, F.emaxfield - 1, F.bias} | set(rng.sample(fields, 120 if F.name == "f64" else 90)))
    for ef in fields:
        fr = gen.sig_patterns(F, rng, 4 if q else 32) + [1 << k for k in range(0, F.mbits, 3 if q else 1)]
        for f in (rng.sample(fr, 6) if q and ef not in (0, 1, F.emaxfield, F.emaxfield - 1) else fr):
            for sign in (0, 1):
                bits = (sign << (F.mbits + F.ebits)) | (ef << F.mbits) | f
                out.append({"t": "field", "fmt": F.name, "bits": core.limbs(bits), "tag": "field"})
            out.append({"t": "pack", "fmt": F.name, "ef": ef, "frac": core.limbs(f), "tag": "pack"})
    return out


def run_parts(wd, mode, inputs, cfg, name):
    bindir = core.build_harness(cfg, bins=["run_parts"])
    outp = os.path.join(wd, name + "-out.ndjson")
    cmd = [os.path.join(bindir, "run_parts"), "--mode", mode, "--out", outp]
    if inputs is not None:
        inp = os.path.join(wd, name + "-in.ndjson")
        core.write_ndjson(inp, [{k: v for k, v in r.items() if k != "tag"} for r in inputs])
        cmd += ["--in", inp]
    core.run(cmd, timeout=900)
    return core.read_ndjson(outp)


def mc_run(module, cfgname, name, timeout=1200):
    mc = core.tlc(os.path.join(core.SPEC, "mc", module + ".tla"), os.path.join(core.SPEC, "mc", cfgname + ".cfg"),
                  name, coverage=False, cont=False, timeout=timeout)
    if mc.errors or mc.distinct == 0:
        raise core.ToolError("%s failed: %s (see work/tlc-%s.log)" % (module, mc.errors[:3], name))
    return mc


def c17(tier):
    t0 = time.time()
    wd = core.workdir("C17")
    inputs = field_patterns(gen.F64, gen.rng_for("C17f64"), tier) + field_patterns(gen.F32, gen.rng_for("C17f32"), tier)
    recs = run_parts(wd, "fields", inputs, "std", "fields")
    if tier != "quick":
        recs += run_parts(wd, "fields", inputs, "compact", "fields-compact")
    mc = mc_run("MC_Fields", "MC_Fields", "C17-mc")
    bad, trails, _, res = parts_adjudicate("C17", wd, recs, "C17")
    violations = [core.write_replay("C17", {"property": "C17", "record": r, "verdict": v}) for (r, v) in bad]
    cov = {
        "states": res.distinct + mc.distinct, "transitions": res.generated + mc.generated,
        "traces_validated_against_impl": len(recs), "evaluations": len(recs),
        "distinct_nontrivial": len({(r["fmt"], str(r.get("bits", [r.get("ef"), r.get("frac")]))) for r in recs}),
        "rule": "bit patterns = every (sampled in quick) exponent field incl. inf/NaN x both signs x fractions {0,1,2,max,max-1,"
                "alternating,half,2^k,random}; helper results (is_denormal, exponent, mantissa, to_bits/from_bits, b, b+h) and "
                "extended_to_float on (exponent field, fraction) pairs compared by TLC with IEEE!Decode / Encode; MC_Fields checks "
                "the model's decode/encode/b/b+h on ALL bit patterns of the 8-bit and 16-bit formats",
        "samples": [recs[0], recs[len(recs) // 2], recs[-1]],
        "spec_trails": dict(trails), "mc_fields_states": mc.distinct, "tlc_cmd": res.cmd, "exhaustive": False,
    }
    core.write_evidence("C17", tier, "model_checking", cov, time.time() - t0, len(violations),
                        assumptions=["2^32 / 2^64 patterns are not enumerated through TLC; every exponent field is"])
    core.finish("C17", violations, [])


def round_inputs(F, rng, tier):
    q = tier == "quick"
    hi = 2100 if F.name == "f64" else 320
    exps = list(range(-63, hi + 1))
    if q:
        special = {-63, -62, -1, 0, 1, 64 - F.mbits - 2, 64 - F.mbits - 1, -(64 - F.mbits - 1), -(64 - F.mbits - 1) + 1,
                   -(64 - F.mbits - 1) - 1, F.emaxfield - 2, F.emaxfield - 1, F.emaxfield, F.emaxfield + 1, hi,
                   # the exponent whose shifted value lands exactly on / next to the all-ones field (overflow edge)
                   F.emaxfield - (64 - F.mbits - 1) - 2, F.emaxfield - (64 - F.mbits - 1) - 1, F.emaxfield - (64 - F.mbits - 1),
                   F.emaxfield - (64 - F.mbits - 1) + 1}
        exps = sorted(special | set(range(-63, 70, 3)) | set(rng.sample(exps, 60)))
    ms = 64 - F.mbits - 1
    out = []
    for e in exps:
        s = (-e + 1) if -e >= ms else ms
        s = min(s, 64)
        keptbits = 64 - s
        truncs = sorted({0, 1, (1 << (s - 1)) - 1, 1 << (s - 1), (1 << (s - 1)) + 1, (1 << s) - 1}) if s > 0 else [0]
        if keptbits == 0:
            kepts = [0]
        else:
            top = 1 << (keptbits - 1)
            kepts = sorted({(1 << keptbits) - 1, top | 1, top, top | (rng.getrandbits(keptbits) & ~1), top | rng.getrandbits(keptbits) | 1})
        for k in kepts:
            for t in truncs:
                mant = (k << s) | t if s < 64 else t
                if mant >> 63 != 1:
                    continue
                for variant in ("nearest", "down"):
                    out.append({"t": "round", "fmt": F.name, "mant": core.limbs(mant), "exp": e, "variant": variant,
                                "tag": "round"})
        # the round bit plus / minus ONE bit at position j below it (and that bit alone), for j at and next to every byte /
        # half-word / word boundary (all j in the thorough tier): a sticky flag folded from a narrower word, a compare
        # done on a part of the truncated bits
        if s >= 2 and keptbits > 0:
            js = range(0, s - 1) if not q else sorted({j for j in (0, 1, 7, 8, 15, 16, 23, 24, 31, 32, 33, 39, 40, 47, 48, 55, 56, s - 3, s - 2)
                                                       if 0 <= j <= s - 2})
            half = 1 << (s - 1)
            for k in (top, top | 1):
                for j in js:
                    for t in (half + (1 << j), half - (1 << j), 1 << j):
                        mant = (k << s) | t
                        if mant >> 63 != 1:
                            continue
                        out.append({"t": "round", "fmt": F.name, "mant": core.limbs(mant), "exp": e, "variant": "nearest", "tag": "round:one-bit"})
    return out


def apalache_round_lemma(wd, shifts):
    """Apalache proves the nearest-even / largest-below lemma of the rounding arithmetic for ALL 2^63 significands with the
    top bit set, one literal shift at a time (spec/apalache/RoundLemma.tla); returns (obligations, discharged)"""
    import concurrent.futures
    src = open(os.path.join(core.SPEC, "apalache", "RoundLemma.tla")).read()

    def one(sh):
        d = os.path.join(wd, "apalache-%d" % sh)
        os.makedirs(d, exist_ok=True)
        with open(os.path.join(d, "RoundLemma.tla"), "w") as f:
            f.write(src.replace("SHIFT", str(sh)))
        p, _ = core.run(["timeout", "600", "apalache-mc", "check", "--inv=Nearest", "--length=0", "--out-dir=" + os.path.join(d, "out"),
                         "RoundLemma.tla"], cwd=d, timeout=700, check=False, env={"JVM_ARGS": "-Xmx2g"})
        ok = p.returncode == 0 and "The outcome is: NoError" in (p.stdout or "")
        shutil.rmtree(os.path.join(d, "out"), ignore_errors=True)
        return sh, ok, (p.stdout or "")[-400:]
    with concurrent.futures.ThreadPoolExecutor(max_workers=6) as ex:
        res = list(ex.map(one, shifts))
    failed = [(sh, tail) for sh, ok, tail in res if not ok]
    if failed:
        raise core.ToolError("Apalache did not discharge the rounding lemma for shifts %s: %s" % ([f[0] for f in failed], failed[0][1]))
    return len(res), len(res)


def c18(tier):
    t0 = time.time()
    wd = core.workdir("C18")
    lemma = apalache_round_lemma(wd, [11, 40] if tier == "quick" else list(range(1, 65)))
    inputs = round_inputs(gen.F64, gen.rng_for("C18f64"), tier) + round_inputs(gen.F32, gen.rng_for("C18f32"), tier)
    recs = run_parts(wd, "round", inputs, "std", "round")
    masks = run_parts(wd, "masks", None, "std", "masks")
    if tier != "quick":
        recs += run_parts(wd, "round", inputs, "std+compact", "round-compact")
    mc = mc_run("MC_Round", "MC_Round" if tier == "quick" else "MC_Round_full", "C18-mc", timeout=3000)
    bad, trails, drift, res = parts_adjudicate("C18", wd, recs + masks, "C18")
    violations = [core.write_replay("C18", {"property": "C18", "record": r, "verdict": v}) for (r, v) in bad]
    cov = {
        "states": res.distinct + mc.distinct, "transitions": res.generated + mc.generated,
        "traces_validated_against_impl": len(recs) + len(masks), "evaluations": len(recs) + len(masks),
        "distinct_nontrivial": len({(r["fmt"], str(r["mant"]), r["exp"], r["variant"]) for r in recs}),
        "rule": "biased exponents in [-63, 2100] (f64) / [-63, 320] (f32) (all in thorough) x significands built per shift: kept bits "
                "{all ones, odd, even, random} x truncated bits {0, 1, half-1, half, half+1, all ones, half +- one bit at every byte / word boundary (every position in thorough)}; nearest-even result must be "
                "the oracle's nearest float of mant*2^(exp-bias); truncating result the largest float not above it (below the "
                "overflow threshold, the callers' domain); mask helpers for n = 0..64; MC_Round checks the model's Round against "
                "the constructive RN on a small format",
        "samples": [recs[0], recs[len(recs) // 2], recs[-1], masks[7]],
        "spec_trails": dict(trails), "model_vs_impl_drift": drift, "mc_round_states": mc.distinct,
        "apalache_round_lemma": {"obligations": lemma[0], "discharged": lemma[1],
                                 "what": "for each literal shift, all 2^63 significands: q+up is a nearest multiple of 2^shift, even on ties; q is the largest below"},
        "tlc_cmd": res.cmd, "exhaustive": False,
    }
    core.write_evidence("C18", tier, "model_checking", cov, time.time() - t0, len(violations),
                        assumptions=["truncating variant judged only below 2^(emax+1) (range the callers guarantee)"])
    core.finish("C18", violations, [])


CHECKS.update({"C14": c14, "C17": c17, "C18": c18})


# ----------------------------------------------------------------------- C13

def c13(tier):
    t0 = time.time()
    wd = core.workdir("C13")
    q = tier == "quick"
    # 1. design level: exhaustive exploration of the vector model
    mc1 = mc_run("MC_Vec", "MC_Vec", "C13-mc-stack")
    mc2 = mc_run("MC_Vec", "MC_VecHeap", "C13-mc-heap")
    violations = []
    stats = {}
    total_events = 0
    samples = []
    trace_states = trace_trans = 0
    for backend, cfg, gencfg, cfcfg in (("stack", "std", "GenVec", "CF_Vec"), ("heap", "std+alloc", "GenVecHeap", "CF_VecHeap")):
        bindir = core.build_harness(cfg, bins=["run_vec"])
        # 2. spec -> impl: TLC-generated histories replayed into the real vector
        nh = 100 if q else 4000
        sim = core.tlc(os.path.join(core.SPEC, "cf", "GenVec.tla"), os.path.join(core.SPEC, "cf", gencfg + ".cfg"),
                       "C13-gen-" + backend, coverage=False, cont=False, workers=1, timeout=3000,
                       simulate=("num=%d" % nh, 45), seed_arg=core.seed() % 100000 + 1)
        hists = [p for p in sim.prints if isinstance(p, dict) and "events" in p]
        if len(hists) < nh:
            raise core.ToolError("GenVec produced %d of %d histories" % (len(hists), nh))
        for k, h in enumerate(hists):
            h["id"] = k + 1
        hp = os.path.join(wd, "gen-%s.ndjson" % backend)
        core.write_ndjson(hp, hists)
        rp = os.path.join(wd, "replay-%s.ndjson" % backend)
        core.run([os.path.join(bindir, "run_vec"), "--mode", "replay", "--in", hp, "--out", rp], timeout=900)
        rep = core.read_ndjson(rp)
        bad = [r for r in rep if not r["ok"]]
        for r in bad:
            violations.append(core.write_replay("C13", {"property": "C13", "direction": "spec->impl", "backend": backend,
                                                        "history": hists[r["id"] - 1], "mismatch": r}))
        # 3. impl -> spec: histories recorded from a seeded random driver, validated by the trace specification
        nr = 100 if q else 3000
        recp = os.path.join(wd, "rec-%s.ndjson" % backend)
        core.run([os.path.join(bindir, "run_vec"), "--mode", "record", "--out", recp, "--seed", str(core.seed()),
                  "--histories", str(nr), "--ops", "60"], timeout=900)
        # TLC loads a chunk of histories at a time (a history is ~40 kB of JSON)
        verd = {}
        res = _Merged()
        allrecs = core.read_ndjson(recp)
        HCH = 500
        for c in range(0, len(allrecs), HCH):
            part = allrecs[c:c + HCH]
            pp = os.path.join(wd, "rec-%s-%d.ndjson" % (backend, c // HCH))
            core.write_ndjson(pp, part)
            r1 = core.tlc(os.path.join(core.SPEC, "cf", "CF_Vec.tla"), os.path.join(core.SPEC, "cf", cfcfg + ".cfg"),
                          "C13-cf-%s-%d" % (backend, c // HCH), env={"VERIF_RECORDS": pp}, coverage=False, timeout=3000)
            v1 = {p["id"]: p for p in r1.prints if isinstance(p, dict) and "id" in p}
            if core.tlc_fatal(r1) or len(v1) != len(part):
                raise core.ToolError("CF_Vec did not decide every history (%d of %d): %s" % (len(v1), len(part), core.tlc_fatal(r1)[:2]))
            verd.update(v1)
            res.distinct += r1.distinct
            res.generated += r1.generated
            os.remove(pp)
        if len(verd) != nr:
            raise core.ToolError("CF_Vec decided %d of %d histories" % (len(verd), nr))
        recs = core.read_ndjson(recp)
        for hid, v in verd.items():
            if v["verdict"] != "ok":
                violations.append(core.write_replay("C13", {"property": "C13", "direction": "impl->spec", "backend": backend,
                                                            "history": recs[hid - 1], "rejected": v}))
        ops = collections.Counter(e["op"] + ":" + e["r"] for h in recs for e in h["events"])
        gops = collections.Counter(e["op"] + ":" + e["r"] for h in hists for e in h["events"])
        nev = sum(len(h["events"]) for h in recs) + sum(len(h["events"]) for h in hists)
        total_events += nev
        trace_states += res.distinct
        trace_trans += res.generated
        stats[backend] = {"generated_histories_replayed": len(hists), "recorded_histories_validated": nr, "events": nev,
                          "recorded_ops": dict(ops), "generated_ops": dict(gops),
                          "max_len_seen": max(e["len"] for h in recs + hists for e in h["events"])}
        samples.append({"backend": backend, "first_events": [{k: e[k] for k in ("op", "r", "len")} for e in recs[1]["events"][:12]]})
    cov = {
        "states": mc1.distinct + mc2.distinct + trace_states, "transitions": mc1.generated + mc2.generated + trace_trans,
        "traces_validated_against_impl": sum(s["generated_histories_replayed"] + s["recorded_histories_validated"] for s in stats.values()),
        "evaluations": total_events, "distinct_nontrivial": total_events,
        "rule": "MC_Vec explores the vector model exhaustively (2-bit limbs, CAP 3 stack / bounded heap, every operation x every "
                "argument; each transition asserted against the sequence contract and numeric meaning); histories of 40 operations "
                "generated from the specification by TLC simulation are replayed into the real StackVec and HeapVec comparing result, "
                "length and contents after every step; histories of 60 operations recorded from a seeded random driver are validated "
                "by the CF_Vec trace specification (LBITS 64, CAP 62)",
        "samples": samples, "mc_states": {"stack": mc1.distinct, "heap": mc2.distinct},
        "mc_transitions": {"stack": mc1.generated, "heap": mc2.generated}, "backends": stats, "exhaustive": False,
    }
    core.write_evidence("C13", tier, "model_checking", cov, time.time() - t0, len(violations),
                        assumptions=["safe API only; ordering / hi64 judged on normalised operands (the domain the property names)"])
    core.finish("C13", violations, [])


CHECKS["C13"] = c13


# ----------------------------------------------------------------------- C12

def c12(tier):
    t0 = time.time()
    wd = core.workdir("C12")
    q = tier == "quick"
    mcs = [mc_run("MC_Bigint", "MC_Bigint" if q else "MC_Bigint_full", "C12-mc-stack", timeout=3000),
           mc_run("MC_Bigint", "MC_BigintHeapCompact", "C12-mc-heap", timeout=3000)]
    inputs = gen.g_bigint(gen.rng_for("C12"), tier)
    plan = [("std", "stack"), ("std+compact+alloc", "heapcompact")] if q else \
           [("std", "stack"), ("std+compact", "stackcompact"), ("std+alloc", "heap"), ("std+compact+alloc", "heapcompact")]
    violations, tool = [], []
    trails = collections.Counter()
    drift = 0
    states = trans = nrec = 0
    tag_of = {r["id"]: r.get("tag", "") for r in inputs}
    events = collections.Counter()
    for cfg, variant in plan:
        outs = run_records(wd, "run_bigint", inputs, [cfg], name="bigint-" + variant)[cfg]
        outs = [o for o in outs if o["res"]["r"] != "skip"]
        path = os.path.join(wd, "C12-%s-records.ndjson" % variant)
        core.write_ndjson(path, outs)
        res = core.tlc(os.path.join(core.SPEC, "cf", "CF_Bigint.tla"), os.path.join(core.SPEC, "cf", "CF_Bigint_%s.cfg" % variant),
                       "C12-" + variant, env={"VERIF_RECORDS": path}, coverage=False, timeout=3000)
        verd = {p["id"]: p for p in res.prints if isinstance(p, dict) and "id" in p}
        if core.tlc_fatal(res) or len(verd) != len(outs):
            raise core.ToolError("CF_Bigint (%s) decided %d of %d records: %s" % (variant, len(verd), len(outs), core.tlc_fatal(res)[:2]))
        by_id = {o["id"]: o for o in outs}
        for rid, v in verd.items():
            trails["%s: %s > %s" % (variant, v["trail"][0], v["trail"][1])] += 1
            for e in v.get("ev", []):
                events[e] += 1
            if v["trail"][2] == "DRIFT":
                drift += 1
            if v["verdict"] == "impl_violates":
                violations.append(core.write_replay("C12", {"property": "C12", "config": cfg, "record": by_id[rid], "verdict": v}))
            elif v["verdict"] == "input_invalid" and tag_of.get(rid, "").endswith(":empty"):
                pass        # degenerate operands outside the property's domain: judged for panics only
            elif v["verdict"] != "ok":
                tool.append((cfg, rid, v))
        states += res.distinct
        trans += res.generated
        nrec += len(outs)
    EXPECTED_EVENTS = ["sa:empty", "sa:no-carry", "sa:ripple-stops", "sa:carry-into-new-limb", "sa:ripple>=3", "sa:zero-addend",
                       "sm:empty", "sm:by-zero", "sm:by-one", "sm:carry-into-new-limb", "sm:no-new-limb", "sm:zero-limb-inside",
                       "laf:resize", "laf:no-resize", "laf:gap-below-start", "laf:final-carry-new-limb", "laf:start0", "laf:offset",
                       "laf:same-top-no-carry", "mul:single-limb-y", "mul:zero-limb-in-y", "mul:y0-zero", "mul:zero-limb-in-x",
                       "mul:lengths-sum-cap+1", "mul:lengths-sum-cap", "mul:product-one-limb-short", "mul:empty-operand",
                       "pow:zero", "pow:large0", "pow:large1", "pow:large>=2", "pow:small0", "pow:small>=2", "pow:no-remainder",
                       "pow:exact-multiple-of-large", "pow:single-limb-x", "shl:whole-limbs", "shl:bits-only", "shl:bits+limbs", "shl:zero",
                       "shl:carry-out-of-top", "shlb:carry-out", "shlb:no-carry", "shll:beyond-cap", "shll:exactly-cap", "shll:empty",
                       "hi:len0", "hi:len1", "hi:len2", "hi:len>=3", "hi:top-aligned", "hi:sticky-only-deep", "hi:nothing-deep",
                       "cmp:lengths-differ", "cmp:equal", "cmp:top-limb-differs", "cmp:deeper-limb-differs",
                       "norm:nothing", "norm:two-or-more", "norm:to-empty"]
    never = [e for e in EXPECTED_EVENTS if events[e] == 0]
    if never:
        core.log("NOTE: specification events never exercised by the validated records: %s" % never)
    cov = {
        "states": states + sum(m.distinct for m in mcs), "transitions": trans + sum(m.generated for m in mcs),
        "traces_validated_against_impl": nrec, "evaluations": nrec,
        "distinct_nontrivial": len({(r["op"], str(r["x"]), str(r["y"]), r["n"]) for r in inputs}),
        "rule": "MC_Bigint: every pair of operand vectors over 3-bit limbs up to capacity 3 through the limb-level algorithms "
                "(large_add_from at every offset, long_mul, large_mul, shl / shl_bits / shl_limbs, stepped pow, bit_length, compare, "
                "hi64) against natural-number arithmetic, incl. failure <=> result does not fit. CF: operations on operands of "
                "0..62 limbs (all-ones, single high bit, sparse, random, powers of five), products and shifts within, at and one limb "
                "beyond the capacity, pow exponents across the 27 / 135 steps up to overflow, in stack and heap builds; TLC "
                "compares the returned contents with the natural-number result and with the limb-level model",
        "samples": [{k: (v if k not in ("x", "y") else "%d limbs" % len(v)) for k, v in r.items()} for r in inputs[:: max(1, len(inputs) // 6)]][:7],
        "spec_trails": dict(trails), "spec_events": dict(sorted(events.items())), "spec_events_never_seen": never,
        "model_vs_impl_drift": drift, "mc_states": [m.distinct for m in mcs],
        "configs": [p[0] for p in plan], "exhaustive": False,
    }
    core.write_evidence("C12", tier, "model_checking", cov, time.time() - t0, len(violations),
                        assumptions=["operands in the range the property names: non-zero normalised factors, normalised input for hi64 / compare"])
    if drift:
        core.log("NOTE: %d records where the limb-level model and the implementation differ (DRIFT)" % drift)
    if tool:
        raise core.ToolError("records outside the domain were generated: %s" % tool[:3])
    core.finish("C12", violations, [])


CHECKS["C12"] = c12


# ----------------------------------------------------------------------- C19
import itertools
import shutil

FE_ALPHABET = [43, 45, 48, 49, 57, 46, 101, 69, 110, 97, 105, 102, 116, 121, 120, 0]


def frontend_inputs(tier):
    rng = gen.rng_for("C19")
    q = tier == "quick"
    out = []

    def add(b, tag):
        out.append({"bytes": list(b), "tag": tag})

    maxlen = 3 if q else 4
    for n in range(0, maxlen + 1):
        for t in itertools.product(FE_ALPHABET, repeat=n):
            add(t, "short")
    for _ in range(1500 if q else 60000):
        n = rng.choice([4, 5, 5, 6, 7])
        add([rng.choice(FE_ALPHABET) for _ in range(n)], "short-sample")
    S = lambda s: s.encode("latin-1")
    # special literals: every case pattern and proper prefixes, with signs and suffixes
    for word in ("nan", "inf", "infinity"):
        for k in range(1, len(word) + 1):
            pre = word[:k]
            pats = set()
            for _ in range(12 if q else 80):
                pats.add("".join(c.upper() if rng.random() < 0.5 else c for c in pre))
            pats |= {pre, pre.upper(), pre.capitalize()}
            for p in pats:
                for sign in ("", "+", "-"):
                    for suf in ("", "x", "1", "ity", "\x00"):
                        add(S(sign + p + suf), "special")
    # exponents of 1..25 digits, both signs: saturation instead of overflow
    for nd in list(range(1, 26)):
        for sign in ("", "+", "-"):
            for lead in ("1", "0", "2147483647"[:min(nd, 10)], "9"):
                digits = (lead + "".join(rng.choice("0123456789") for _ in range(nd)))[:nd]
                for mant in ("1", "0", "1.5", "0.0000001", "123456789012345678901234567890"):
                    add(S(mant + "e" + sign + digits), "exponent")
    for e in ("2147483647", "2147483648", "-2147483648", "-2147483649", "2147483639", "21474836470", "-21474836480",
              "+00000000000000000000000000012", "-000000000000000000000000000000400", "99999999999999999999"):
        for mant in ("1", "0", "10", "0.1", ".5", "5."):
            add(S(mant + "E" + e), "exponent-limit")
            add(S("-" + mant + "e" + e + "e5"), "exponent-limit")
    # zero runs, signs, dots, dangling pieces
    for s in ("", "+", "-", ".", "+.", "-.", "e", "e5", ".e5", "-.e-5", "1e", "1e+", "1e-", "1.e", "1..2", "1.2.3", "--1", "+-1", "1e5e5",
              "000", "000.000", "-0", "-0.0e0", "0e999999999999", "-0e-999999999999", "00012.3400", "000000000000000000000001",
              "0.000000000000000000000000000001", "100000000000000000000000.000000000000", "1_000", "1,5", " 1", "1 ", "\t1", "１２",
              "1e5x", "0x10", "1f", "1d", "1.5f32", "nan(1)", "in", "i", "n", "na", "infinit", "infinityy", "+nan", "-NAN", "iNf", "-iNFiNiTy!"):
        add(S(s) if all(ord(c) < 256 for c in s) else s.encode("utf-8"), "edge")
    # NUL / high bytes around numbers
    for b in (0, 1, 47, 58, 127, 128, 255):
        add([b], "byte")
        add([49, b, 50], "byte")
        add([b, 49], "byte")
        add([49, 46, b], "byte")
        add([49, 101, b, 50], "byte")
    # a byte that is ALMOST a digit ('/' and ':' are the neighbours of '0'..'9'; digit | 0x80; digit - 0x20 / + 0x10) at every
    # position of a digit run of 7..33 digits, in the integer, fraction and exponent runs: scanners that test several
    # bytes at once (8-byte words, 16-byte vectors) have their own acceptance test for the full blocks
    near = [0x2F, 0x3A, 0xB5, 0x00] if q else [0x2F, 0x3A, 0x3B, 0x40, 0x15, 0x1A, 0xB0, 0xB5, 0xB9, 0xBA, 0x00, 0xFF, 0x20, 0x49]
    for L in ((8, 9, 16, 17, 33) if q else (7, 8, 9, 15, 16, 17, 24, 31, 32, 33)):
        for b in near:
            for pos in range(0, L):
                run = [rng.choice(b"0123456789") for _ in range(L)]
                run[pos] = b
                if rng.random() < 0.25:
                    run[rng.randrange(L)] = b
                add(run, "near-digit-int")
                add(list(b"1.") + run, "near-digit-frac")
                add(list(rng.choice([b"1e", b"1e-", b"2.5E+"])) + [48] * rng.choice([0, 0, 6]) + run[:12], "near-digit-exp")
    # long literals: midpoints with signs and suffixes
    for F in (gen.F64, gen.F32):
        for ef in rng.sample(range(0, F.emaxfield), 8 if q else 120):
            bits = (ef << F.mbits) | rng.choice(gen.sig_patterns(F, rng, 2))
            M, k = F.midpoint(bits)
            ds, e10 = gen.exact_decimal(M, k)
            for (i, f, e) in gen.forms(ds, e10, rng, nforms=2):
                lit = ("000" if rng.random() < 0.3 else "") + i + ("." + f + ("00" if rng.random() < 0.3 else "") if f or rng.random() < 0.2 else "") + \
                      (("e" if rng.random() < 0.5 else "E") + ("+" if e >= 0 and rng.random() < 0.5 else "") + str(e) if e or rng.random() < 0.3 else "")
                add(S(rng.choice(["", "+", "-"]) + lit + rng.choice(["", " ", "x", "e", ".", "\x00\x006"])), "long")
    # random bytes
    for _ in range(500 if q else 20000):
        n = rng.choice([1, 2, 5, 10, 30, 100])
        add([rng.randrange(256) if rng.random() < 0.3 else rng.choice(b"0123456789.eE+-naifNAIF") for _ in range(n)], "random")
    seen = set()
    res = []
    for r in out:
        key = bytes(r["bytes"])
        if key not in seen:
            seen.add(key)
            r["id"] = len(res) + 1
            res.append(r)
    return res


def c19(tier):
    t0 = time.time()
    wd = core.workdir("C19")
    q = tier == "quick"
    mc = core.tlc(os.path.join(core.SPEC, "mc", "MC_FrontEnd.tla"),
                  os.path.join(core.SPEC, "mc", "MC_FrontEnd.cfg" if q else "MC_FrontEnd_full.cfg"),
                  "C19-mc", coverage=False, cont=False, timeout=3000, extra=["-maxSetSize", "2000000"])
    if mc.errors or mc.distinct == 0:
        raise core.ToolError("MC_FrontEnd failed: %s" % mc.errors[:3])
    mcv = mc_run("MC_FrontEndValue", "MC_FrontEndValue" if q else "MC_FrontEndValue_full", "C19-mc-value", timeout=3000)
    inputs = frontend_inputs(tier)
    outs = run_records(wd, "run_frontend", inputs, ["std"], name="frontend")["std"]
    if any(o["kind"] == "unextractable" for r in outs for o in r["outs"]):
        raise core.ToolError("a front-end copy could not be extracted from the repository sources (harness/build.rs)")
    recs = [{"id": r["id"], "bytes": r["bytes"], "outs": r["outs"]} for r in outs]
    verdicts, res = tlc_records(wd, "CF_FrontEnd", recs, "C19")
    violations = []
    shapes = collections.Counter()
    drift = 0
    for rid, v in verdicts.items():
        if v["verdict"] == "ok":
            shapes["%s | %s" % (v["trail"][0], v["trail"][1])] += 1
            if v["trail"][2] == "DRIFT":
                drift += 1
        else:
            violations.append(core.write_replay("C19", {"property": "C19", "bytes": recs[rid - 1]["bytes"],
                                                        "text": bytes(recs[rid - 1]["bytes"]).decode("latin-1"),
                                                        "record": recs[rid - 1], "verdict": v}))
    tags = collections.Counter(r["tag"] for r in inputs)
    ncopies = len(recs[0]["outs"]) // 2
    cov = {
        "states": res.distinct + mc.distinct + mcv.distinct, "transitions": res.generated + mc.generated + mcv.generated,
        "mc_frontend_plus_pipeline_strings": mcv.distinct // 2,
        "traces_validated_against_impl": len(recs) * ncopies * 2, "evaluations": len(recs) * ncopies * 2,
        "distinct_nontrivial": len(recs),
        "rule": "MC_FrontEnd: scanner state machine = declarative longest-prefix definition on all strings up to length 4 (quick) / 5 "
                "over 16 symbols. CF: all strings up to length 3 (quick) / 4 over the same alphabet, sampled longer ones, every case "
                "pattern of nan / inf / infinity and their prefixes with signs and suffixes, exponents of 1..25 digits (saturation), "
                "dangling pieces, NUL / high bytes, long midpoint literals with signs and suffixes, random bytes; every copy "
                "extracted from the repository (example, fuzz target, integration test, 4 correctness tools) x f32/f64; TLC "
                "requires value (oracle), sign, exact suffix, outcome = value",
        "samples": [{"text": bytes(r["bytes"]).decode("latin-1")[:60], "tag": r["tag"]} for r in inputs[:: max(1, len(inputs) // 8)]][:10],
        "families": dict(tags), "shapes (with specials | without)": dict(shapes), "scanner_model_drift": drift,
        "copies": ncopies, "mc_strings": mc.distinct // 2, "tlc_cmd": res.cmd, "exhaustive": False,
    }
    core.write_evidence("C19", tier, "model_checking", cov, time.time() - t0, len(violations),
                        assumptions=["copies are extracted textually from the repository files by harness/build.rs (from fn parse_sign to the end "
                                     "of fn parse_float) and compiled against /repo"])
    core.finish("C19", violations, [])


CHECKS["C19"] = c19


# ----------------------------------------------------------------------- C16

def c16(tier):
    t0 = time.time()
    wd = core.workdir("C16")
    q = tier == "quick"
    mc = mc_run("MC_Calls", "MC_Calls", "C16-mc")
    # the model must be able to see the failure modes the property names
    for bad in ("MC_Calls_shared", "MC_Calls_lenfirst", "MC_Calls_memo", "MC_Calls_memog"):
        r = core.tlc(os.path.join(core.SPEC, "mc", "MC_Calls.tla"), os.path.join(core.SPEC, "mc", bad + ".cfg"), "C16-" + bad,
                     coverage=False, cont=False, timeout=600)
        if r.invariant_violations == 0:
            raise core.ToolError("vacuity: %s should violate an invariant of Calls.tla but does not" % bad)
    inputs = []
    for F in (gen.F64, gen.F32):
        rng = gen.rng_for("C16" + F.name)
        inputs += gen.g_plain(F, rng, 30 if q else 300)
        inputs += gen.g_midpoints(F, rng, tier, nexp=10 if q else 100, nrand=1)
        inputs += gen.g_runs(F, rng, 30 if q else 400)
        inputs += gen.g_seams(F, rng)[:: 12 if q else 3]
        inputs += [r for r in gen.g_extremes(F, rng, big=3000) if r["tag"] != "G5:zero"][:: 4 if q else 1]
        # one decisive digit beyond the digit budget (the tail that is only scanned): what an iterator-dependent scan gets wrong
        inputs += gen.g_sticky_positions(F, rng, tier)[:: 5 if q else 2]
        # huge values cut after 20..40 digits and written in scientific form: big-integer path with a POSITIVE residual exponent
        for ef in rng.sample(range(F.bias + 70, F.emaxfield), min(16 if q else 60, F.emaxfield - F.bias - 70)):
            M, k = F.midpoint((ef << F.mbits) | rng.getrandbits(F.mbits))
            ds, e10 = gen.exact_decimal(M, k)
            t = rng.choice([20, 21, 25, 30, 40])
            if len(ds) > t:
                inputs.append(gen.mk(F.name, ds[:1], ds[1:t], e10 + len(ds) - 1, "C16:huge-sci"))
    hists = []
    for F in (gen.F64, gen.F32):
        hists += gen.g_histories(F, gen.rng_for("C16hist" + F.name), tier)
    inputs += [dict(r) for h in hists for r in h]
    inputs = gen.normalise(gen.dedup(inputs))
    keyof = lambda r: json.dumps([r["fmt"], r["int"], r["frac"], r["exp"]])
    idof = {keyof(r): r["id"] for r in inputs}
    hist_ids = [[idof[keyof(gen.normalise([dict(r)])[0])] for r in h] for h in hists]
    cfgs = ["std", "std+compact"] if q else ["std", "std+compact", "std+alloc", "none"]
    nthreads = 8
    violations = []
    tstates = ttrans = nevents = 0
    over_calls = 0
    shapes = collections.Counter()
    for cfg in cfgs:
        bindir = core.build_harness(cfg, bins=["run_parse"])
        inp = os.path.join(wd, "in.ndjson")
        core.write_ndjson(inp, [{k: v for k, v in r.items() if k != "tag"} for r in inputs])
        base = os.path.join(wd, "base-%s.ndjson" % cfg.replace("+", "_"))
        # the reference: every input in a PROCESS OF ITS OWN (no earlier call, no other thread)
        core.run([os.path.join(bindir, "run_parse"), "--in", inp, "--out", base, "--fresh"], timeout=1800)
        fresh = core.read_ndjson(base)
        if len(fresh) != len(inputs) or any(o["out"]["kind"] == "died" for o in fresh):
            raise core.ToolError("fresh-process baseline incomplete")
        baseline = [{"id": o["id"], "kind": o["out"]["kind"], "bits": o["out"]["bits"]} for o in fresh]
        threads = []
        # one process walking all inputs in file order (the former baseline) is just another history
        so = os.path.join(wd, "out-inorder-%s.ndjson" % cfg.replace("+", "_"))
        core.run([os.path.join(bindir, "run_parse"), "--in", inp, "--out", so], timeout=900)
        threads.append({"thread": 99, "events": [{"id": o["id"], "seq": k, "shape": 0, "kind": o["out"]["kind"], "bits": o["out"]["bits"]}
                                                 for k, o in enumerate(core.read_ndjson(so))]})
        # histories of related inputs, back to back on one thread
        byid = {r["id"]: r for r in inputs}
        hi_in = os.path.join(wd, "hist-in.ndjson")
        core.write_ndjson(hi_in, [{k: v for k, v in byid[i].items() if k != "tag"} for h in hist_ids for i in h])
        hi_out = os.path.join(wd, "hist-out-%s.ndjson" % cfg.replace("+", "_"))
        core.run([os.path.join(bindir, "run_parse"), "--in", hi_in, "--out", hi_out], timeout=900)
        threads.append({"thread": 300, "events": [{"id": o["id"], "seq": k, "shape": 0, "kind": o["out"]["kind"], "bits": o["out"]["bits"]}
                                                  for k, o in enumerate(core.read_ndjson(hi_out))]})
        # sequential thread "0": every shape on every input, after stack poisoning
        seq_events = []
        for shape in range(11):
            si = os.path.join(wd, "in-shape%d.ndjson" % shape)
            core.write_ndjson(si, [dict({k: v for k, v in r.items() if k != "tag"}, shape=shape) for r in inputs])
            so = os.path.join(wd, "out-shape%d-%s.ndjson" % (shape, cfg.replace("+", "_")))
            core.run([os.path.join(bindir, "run_parse"), "--in", si, "--out", so, "--poison"], timeout=900)
            for o in core.read_ndjson(so):
                seq_events.append({"id": o["id"], "seq": len(seq_events), "shape": shape, "kind": o["out"]["kind"], "bits": o["out"]["bits"]})
                shapes[shape] += 1
        threads.append({"thread": 100, "events": seq_events})
        # concurrent threads
        to = os.path.join(wd, "out-threads-%s.ndjson" % cfg.replace("+", "_"))
        core.run([os.path.join(bindir, "run_parse"), "--in", inp, "--out", to, "--threads", str(nthreads), "--poison"], timeout=900)
        per = collections.defaultdict(list)
        for o in core.read_ndjson(to):
            per[o["thread"]].append(o)
            shapes[o["shape"]] += 1
        for t, evs in sorted(per.items()):
            evs.sort(key=lambda e: e["seq"])
            threads.append({"thread": t, "events": [{"id": e["id"], "seq": e["seq"], "shape": e["shape"], "kind": e["kind"], "bits": e["bits"]} for e in evs]})
        # contention phase: every thread hammers its OWN big-integer-path inputs (different inputs in different threads
        # at the same time); inputs are chosen by the path the hook reported in the baseline run
        slow = [o for o in core.read_ndjson(base) if o.get("path") == "slow"]
        hot = [r for r in inputs if r["id"] in {o["id"] for o in slow}]
        hot = hot[:: max(1, len(hot) // 48)][:48]
        if len(hot) >= nthreads:
            hi = os.path.join(wd, "hot-in.ndjson")
            core.write_ndjson(hi, [{k: v for k, v in r.items() if k != "tag"} for r in hot])
            ho = os.path.join(wd, "hot-out-%s.ndjson" % cfg.replace("+", "_"))
            core.run([os.path.join(bindir, "run_parse"), "--in", hi, "--out", ho, "--threads", str(nthreads), "--hammer", "150" if q else "1500"], timeout=1800)
            per2 = collections.defaultdict(list)
            for o in core.read_ndjson(ho):
                per2[o["thread"]].append(o)
            for t, evs in sorted(per2.items()):
                evs.sort(key=lambda e: e["seq"])
                threads.append({"thread": 200 + t, "events": [{"id": e["id"], "seq": e["seq"], "shape": e["shape"], "kind": e["kind"], "bits": e["bits"]} for e in evs]})
            # oversubscribed phase: three threads per core hammer the big-integer-path inputs, so that threads are
            # preempted INSIDE the library (a lock, spin or flag that protects shared state only "long enough" gives way);
            # the harness writes the first call of every input and every call whose outcome differs from the previous one
            nover = 3 * (os.cpu_count() or 8)
            ho2 = os.path.join(wd, "over-out-%s.ndjson" % cfg.replace("+", "_"))
            rounds = 40000 if q else 400000
            core.run([os.path.join(bindir, "run_parse"), "--in", hi, "--out", ho2, "--threads", str(nover), "--hammer", str(rounds), "--compress"], timeout=1800)
            per3 = collections.defaultdict(list)
            for o in core.read_ndjson(ho2):
                per3[o["thread"]].append(o)
            for t, evs in sorted(per3.items()):
                evs.sort(key=lambda e: e["seq"])
                threads.append({"thread": 400 + t, "events": [{"id": e["id"], "seq": e["seq"], "shape": e["shape"], "kind": e["kind"], "bits": e["bits"]} for e in evs]})
            over_calls += rounds * len(hot)
            # first-use phase: FRESH processes in which every thread makes its first (and only) call at the same moment
            # (barrier), each with a different big-integer-path input: lazily initialised shared data is built by one
            # thread while the others already need it
            nfirst = 40 if q else 400
            fevents = collections.defaultdict(list)
            # inputs that need DIFFERENT amounts of the lazily built data: the power of five applied on the big-integer
            # path is (about) the number of decimal places of the last kept digit; two inputs per multiple of 135
            slow_all = [r for r in inputs if r["id"] in {o["id"] for o in slow}]
            def need(r):
                nd = core.segs_len(r["int"]) + core.segs_len(r["frac"])
                e_last = r["exp"] - core.segs_len(r["frac"]) + max(0, nd - 770)
                return max(0, -e_last) // 135 if e_last < 0 else min(8, e_last // 135)
            byneed = collections.defaultdict(list)
            for r in slow_all:
                byneed[need(r)].append(r)
            firsts = [r for kk in sorted(byneed) for r in byneed[kk][:2]][:16]
            if len(firsts) < 4:
                firsts = hot[:16]
            for rep in range(nfirst):
                fo = os.path.join(wd, "first-out-%s.ndjson" % cfg.replace("+", "_"))
                nth = min(len(firsts), 16)
                # rotate which input each thread gets
                rot = firsts[rep % len(firsts):] + firsts[:rep % len(firsts)]
                fi = os.path.join(wd, "first-in.ndjson")
                core.write_ndjson(fi, [{k: v for k, v in r.items() if k != "tag"} for r in rot[:nth]])
                core.run([os.path.join(bindir, "run_parse"), "--in", fi, "--out", fo, "--threads", str(nth), "--hammer", "1"], timeout=600)
                for o in core.read_ndjson(fo):
                    fevents[rep].append(o)
            for rep, evs in sorted(fevents.items()):
                threads.append({"thread": 1000 + rep, "events": [{"id": e["id"], "seq": k, "shape": e["shape"], "kind": e["kind"], "bits": e["bits"]}
                                                                  for k, e in enumerate(evs)]})
        ep = os.path.join(wd, "events-%s.ndjson" % cfg.replace("+", "_"))
        bp = os.path.join(wd, "baseline-%s.ndjson" % cfg.replace("+", "_"))
        core.write_ndjson(ep, threads)
        core.write_ndjson(bp, baseline)
        res = core.tlc(os.path.join(core.SPEC, "cf", "CF_Calls.tla"), os.path.join(core.SPEC, "cf", "CF_Calls.cfg"), "C16-cf-" + cfg.replace("+", "_"),
                       env={"VERIF_RECORDS": ep, "VERIF_BASELINE": bp}, coverage=False, timeout=3000)
        verd = list({p["id"]: p for p in res.prints if isinstance(p, dict) and "verdict" in p}.values())
        if core.tlc_fatal(res) or len(verd) != len(threads):
            raise core.ToolError("CF_Calls decided %d of %d threads: %s" % (len(verd), len(threads), core.tlc_fatal(res)[:2]))
        for v in verd:
            if v["verdict"] != "ok":
                r = inputs[v["input"] - 1]
                violations.append(core.write_replay("C16", {"property": "C16", "config": cfg, "input": parsecheck.describe(r), "event": v}))
        tstates += res.distinct
        ttrans += res.generated
        nevents += sum(len(t["events"]) for t in threads)
    cov = {
        "states": mc.distinct + tstates, "transitions": mc.generated + ttrans,
        "traces_validated_against_impl": len(cfgs) * (2 * nthreads + 3), "evaluations": nevents, "histories": len(hist_ids), "oversubscribed_calls": over_calls, "first_use_processes": (40 if q else 400) * len(cfgs),
        "distinct_nontrivial": len(inputs) * 11,
        "rule": "MC_Calls: 3 threads x 2 inputs x every initial stack content x every interleaving, up to 2 calls per thread; the four "
                "failure designs (shared scratch buffer, length set before the cells are written, per-thread and global one-entry "
                "memo keyed by a prefix of the input) must each violate an invariant. "
                "CF: every input x 11 iterator shapes (slice, chain, filter, skip/step_by, VecDeque ring, hand-written iterator with "
                "size_hint (0,None), rev.rev, two NON-FUSED ones that would yield more bytes if polled after None: hand-written and map_while, "
                "slices starting at odd addresses, and an exact-sized chain whose decisive digit comes from outside a buffer that holds a different byte there) after stack-poisoning calls, plus 8 concurrent threads each walking all inputs in its own "
                "order with rotating shapes; histories of RELATED inputs back to back on one thread (19-digit prefix / just below / "
                "exact tie / just above a midpoint, exponent one off, other float format); the CF_Calls trace specification enables "
                "Return only for baseline[input], and the baseline is what a FRESH PROCESS returns for that input alone",
        "samples": [parsecheck.describe(r) for r in inputs[:: max(1, len(inputs) // 5)]][:6],
        "events_per_shape": dict(shapes), "inputs": len(inputs), "threads": nthreads, "configs": cfgs,
        "mc_states": mc.distinct, "exhaustive": False,
    }
    core.write_evidence("C16", tier, "model_checking", cov, time.time() - t0, len(violations),
                        assumptions=["baseline = one fresh process per input, slice iterators, same build; no timing dependence: verdicts compare bits only"])
    core.finish("C16", violations, [])


CHECKS["C16"] = c16


# ----------------------------------------------------------------------- C08

def raw_to_values(S):
    """raw byte segments -> element values (byte - 48) mod 256 for the specification"""
    return [{"d": [(b - 48) % 256 for b in s["d"]], "n": s["n"]} for s in S]


def c08(tier):
    t0 = time.time()
    wd = core.workdir("C08")
    q = tier == "quick"
    mc = mc_run("MC_Garbage", "MC_Garbage", "C08-mc", timeout=1800)
    inputs = gen.g_garbage(gen.rng_for("C08"), tier)
    # well-formed decimals are arbitrary bytes too: the ones that drive the big integers furthest (zero limbs inside the
    # multiplier, integer parts ending in 64..192 zeros, the decimal point next to the digit budget)
    rngd = gen.rng_for("C08deep")
    deep = gen.g_sparse_bigmant(gen.F64, rngd, 8 if q else 80) + gen.g_zero_limbs(gen.F64, rngd, tier)[:: 6 if q else 1] + \
        gen.g_budget_splits(gen.F64, rngd, tier)[:: 12 if q else 2] + gen.g_budget_splits(gen.F32, rngd, tier)[:: 12 if q else 2]
    for r in deep:
        raw = lambda ds: [{"d": [48 + int(c) for c in ds], "n": 1}] if ds else []
        inputs.append({"fmt": r["fmt"], "int": raw(r["int"]), "frac": raw(r["frac"]), "exp": r["exp"], "raw": True,
                       "tag": "C08:valid-sparse" if r["tag"].startswith("G22") else "C08:valid-deep"})
    for k, r in enumerate(inputs):
        r["id"] = k + 1
    plan = [("release", None, ["std", "std+compact", "std+alloc"] if q else core.ALL_CONFIGS),
            ("checked", None, ["std"] if q else ["std", "std+compact", "std+alloc", "compact"]),
            ("release", "asan", ["std", "std+alloc"] if q else ["std", "std+alloc", "std+compact", "compact+alloc"])]
    violations = []
    merged = None
    instruments = {}
    hist = {}
    for profile, san, cfgs in plan:
        env = {"ASAN_OPTIONS": "detect_leaks=0:abort_on_error=0:exitcode=99"} if san else None
        label = profile + ("+" + san if san else "")
        try:
            outs = parsecheck.run_impl(wd, inputs, cfgs, profile=profile, sanitizer=san, env=env, markers=True, name="garbage")
        except parsecheck.ProcessDeath as d:
            rec = next((r for r in inputs if r["id"] == d.record), None)
            violations.append(core.write_replay("C08", {"property": "C08", "what": "process died (abort / signal / sanitizer report)",
                                                        "build": label, "config": d.cfg, "exit_code": d.rc, "input": rec,
                                                        "output_tail": d.output}))
            continue
        instruments[label] = {c: collections.Counter(o["out"]["kind"] for o in outs[c]) for c in cfgs}
        for k, v in parsecheck.path_histogram(outs).items():
            hist[k + "@" + label] = v
        recs = parsecheck.merge(inputs, outs, "@" + label)
        if merged is None:
            merged = recs
        else:
            for a, b in zip(merged, recs):
                a["outs"].extend(b["outs"])
    known = []
    cov_extra = {}
    res = None
    if merged is not None:
        for m in merged:
            m["int"] = raw_to_values(m["int"])
            m["frac"] = raw_to_values(m["frac"])
        verdicts, trails, res = parsecheck.adjudicate(wd, merged, {"GARBAGE"}, "C08")
        for rid, v in verdicts.items():
            if v["verdict"] == "impl_violates":
                violations.append(core.write_replay("C08", {"property": "C08", "record": merged[rid - 1], "verdict": v}))
            elif v["verdict"] != "ok":
                raise core.ToolError("C08 record not adjudicated: %s" % v)
        cov_extra = {"spec_trails": dict(trails), "model": {k: (v[:20] if isinstance(v, list) else v) for k, v in res.model.items()}}
    # Miri (Tree Borrows) on a reduced batch: sees intra-object overflow and uninitialised reads, which ASan cannot
    miri = run_miri(wd, inputs, q)
    if True:
        if miri.get("error"):
            violations.append(core.write_replay("C08", {"property": "C08", "what": "Miri reported undefined behaviour", "output_tail": miri["error"]}))
    tags = collections.Counter(r["tag"] for r in inputs)
    cov = {
        "states": mc.distinct + (res.distinct if res else 0), "transitions": mc.generated + (res.generated if res else 0),
        "traces_validated_against_impl": sum(sum(sum(c.values()) for c in i.values()) for i in instruments.values()),
        "evaluations": len(inputs), "distinct_nontrivial": len({(r["fmt"], json.dumps(r["int"]), json.dumps(r["frac"]), r["exp"]) for r in inputs}),
        "rule": "arbitrary bytes (every byte value; classes '0' '9' ':' 0xFF NUL '/' in run-structured strings with run lengths "
                "{1,2,19,20,21,770,2000}; single bad bytes at the truncation positions; leading/trailing zeros; random bytes up to 10^4) x "
                "every exponent class, run under catch_unwind in a release build, a build with debug assertions + overflow checks (core's "
                "unsafe-precondition checks included) and an AddressSanitizer build, with begin/end markers so that a process death is "
                "attributed; TLC validates outcome in {value, clean panic} and runs the parse_number model on the garbage; MC_Garbage "
                "checks the model's unchecked-index obligations",
        "samples": [{"fmt": r["fmt"], "int": core.segs_str(raw_to_values(r["int"])), "frac": core.segs_str(raw_to_values(r["frac"])),
                     "exp": r["exp"], "tag": r["tag"]} for r in inputs[:: max(1, len(inputs) // 6)]][:8],
        "families": dict(tags), "outcomes_per_build": {k: {c: dict(v) for c, v in i.items()} for k, i in instruments.items()},
        "impl_paths": hist, "miri": miri, "mc_states": mc.distinct, "exhaustive": False,
    }
    cov.update(cov_extra)
    core.write_evidence("C08", tier, "model_checking", cov, time.time() - t0, len(violations),
                        assumptions=["detection in the binary is by the instruments (ASan, debug / UB-precondition checks, Miri with Tree Borrows in "
                                     "thorough); the specification fixes the permitted outcomes and the bounds obligations"])
    core.finish("C08", violations, known)


def run_miri(wd, inputs, quick=False):
    inp = os.path.join(wd, "miri-in.ndjson")
    outp = os.path.join(wd, "miri-out.ndjson")
    # a few records of every family (Miri is ~1000x slower than native), short ones first; the quick tier takes the
    # families that reach deepest into the vectors (a couple of records each)
    by_tag = collections.defaultdict(list)
    for r in inputs:
        if core.segs_len(r["int"]) + core.segs_len(r["frac"]) <= (900 if quick else 2100):
            by_tag[r["tag"]].append(r)
    small = []
    per = {"C08:valid-sparse": 8, "C08:valid-deep": 8, "C08:accumulate": 4, "C08:all-zeros": 3, "C08:zeros": 2, "C08:one-bad-byte": 2} if quick else None
    for tag, lst in sorted(by_tag.items()):
        rng = gen.rng_for("miri" + tag)
        n = per.get(tag, 0) if per is not None else 60
        if tag == "C08:all-zeros" and n:
            # an EMPTY big integer (20+ zeros: w = 0 truncated) that is then multiplied by the large power (exponent >= 135)
            # (adjusted exponent within the table range - beyond it the middle stage panics first, finding F4 - and a
            # residual exponent of at least 135)
            deep = [r for r in lst if r["fmt"] == "f64" and core.segs_len(r["int"]) >= 20 and r["exp"] >= 153
                    and r["exp"] + core.segs_len(r["int"]) - 19 <= 308]
            small += rng.sample(deep, min(len(deep), 3 if quick else 12))
        small += rng.sample(lst, min(len(lst), n))
    core.write_ndjson(inp, [{k: v for k, v in r.items() if k != "tag"} for r in small])
    env = {"MIRIFLAGS": "-Zmiri-tree-borrows -Zmiri-disable-isolation", "CARGO_TARGET_DIR": os.path.join(core.HARNESS, "target", "miri")}
    # release profile: with overflow checks on, a clean arithmetic panic can mask an undefined access further down
    p, wall = core.run(["cargo", "+nightly", "miri", "run", "--release", "--features", "std,verif", "--bin", "run_parse", "--", "--in", inp, "--out", outp],
                       cwd=core.HARNESS, env=env, timeout=3000, check=False)
    if p.returncode != 0:
        txt = p.stdout or ""
        if "Undefined Behavior" in txt or "error: unsupported operation" in txt:
            return {"records": len(small), "error": txt[-3000:]}
        raise core.ToolError("miri run failed: %s" % txt[-1500:])
    return {"records": len(core.read_ndjson(outp)), "error": None, "wall_s": round(wall, 1)}


CHECKS["C08"] = c08


# -------------------------------------------------------------------- replay

PARSE_FLAGS = {"C01": {"VALUE", "MODEL"}, "C02": {"VALUE", "MODEL"}, "C03": {"VALUE", "EXPECT"}, "C04": {"NOPANIC"},
               "C05": {"AGREE", "VALUE"}, "C06": {"VALUE", "MODEL"}, "C07": {"VALUE", "MODEL"}, "C15": {"ALLOCS", "NOPANIC"}}


def replay(prop, path):
    """bin/check <id> --replay <file>: re-run exactly the recorded case"""
    rep = json.load(open(path))
    os.environ["VERIF_NO_EVIDENCE"] = "1"
    if prop in PARSE_FLAGS and "record" in rep:
        rec = rep["record"]
        inp = {"id": 1, "fmt": rec["fmt"], "int": rec["int"], "frac": rec["frac"], "exp": rec["exp"], "tag": "replay"}
        if "expect" in rec:
            inp["expect"], inp["render"] = rec["expect"], rec.get("render", "")
        cfgs = sorted({o["cfg"].split("@")[0] for o in rec["outs"]})
        profiles = tuple(sorted({(o["cfg"].split("@")[1] if "@" in o["cfg"] else "release") for o in rec["outs"]}, reverse=True))
        parsecheck.parse_property_check(prop, "quick", [inp], cfgs, PARSE_FLAGS[prop], rule="replay of " + path,
                                        level_note="replay", profiles=profiles or ("release",))
    elif prop == "C11" and "record" in rep:
        wd = core.workdir("C11-replay")
        rec = rep["record"]
        inputs = [{"id": 1, "fmt": rec["fmt"], "w": rec["w"], "q": rec["q"], "trunc": rec["trunc"]}]
        cfgs = [o["cfg"] for o in rec["outs"]]
        outs = run_records(wd, "run_moderate", inputs, cfgs)
        m = dict(inputs[0])
        m["outs"] = [dict(outs[c][0]["res"], cfg=c) for c in cfgs]
        verdicts, _ = tlc_records(wd, "CF_Moderate", [m], "C11-replay")
        v = verdicts[1]
        print(json.dumps({"input": rep.get("input"), "verdict": v}, indent=1))
        core.finish("C11", [path] if v["verdict"] == "impl_violates" else [], [])
    elif prop in ("C09", "C10") and "record" in rep:
        wd = core.workdir(prop + "-replay")
        g = rep["record"]
        cfgs = [o["cfg"] for o in g["members"][0]["outs"]]
        flat = [{"id": k + 1, "fmt": g["fmt"], "int": m["int"], "frac": m["frac"], "exp": m["exp"]} for k, m in enumerate(g["members"])]
        outs = parsecheck.run_impl(wd, flat, cfgs)
        rec = {"id": 1, "kind": g["kind"], "fmt": g["fmt"], "members": [
            {"int": f["int"], "frac": f["frac"], "exp": f["exp"],
             "outs": [{"cfg": c, "kind": outs[c][k]["out"]["kind"], "bits": outs[c][k]["out"]["bits"]} for c in cfgs]} for k, f in enumerate(flat)]}
        verdicts, _ = tlc_records(wd, "CF_Order", [rec], prop + "-replay")
        print(json.dumps(verdicts[1], indent=1))
        core.finish(prop, [path] if verdicts[1]["verdict"] == "impl_violates" else [], [])
    elif prop == "C19" and "bytes" in rep:
        wd = core.workdir("C19-replay")
        outs = run_records(wd, "run_frontend", [{"id": 1, "bytes": rep["bytes"]}], ["std"], name="frontend")["std"]
        verdicts, _ = tlc_records(wd, "CF_FrontEnd", [{"id": 1, "bytes": rep["bytes"], "outs": outs[0]["outs"]}], "C19-replay")
        print(json.dumps(verdicts[1], indent=1))
        core.finish("C19", [path] if verdicts[1]["verdict"] == "impl_violates" else [], [])
    elif prop == "C12" and "record" in rep:
        wd = core.workdir("C12-replay")
        r = rep["record"]
        cfg = rep.get("config", "std")
        variant = ("heap" if "alloc" in cfg else "stack") + ("compact" if "compact" in cfg else "")
        outs = run_records(wd, "run_bigint", [{"id": 1, "op": r["op"], "x": r["x"], "y": r["y"], "n": r["n"]}], [cfg], name="bigint")[cfg]
        p = os.path.join(wd, "rec.ndjson")
        core.write_ndjson(p, outs)
        res = core.tlc(os.path.join(core.SPEC, "cf", "CF_Bigint.tla"), os.path.join(core.SPEC, "cf", "CF_Bigint_%s.cfg" % variant),
                       "C12-replay", env={"VERIF_RECORDS": p}, coverage=False)
        v = [x for x in res.prints if isinstance(x, dict)][0]
        print(json.dumps(v, indent=1))
        core.finish("C12", [path] if v["verdict"] == "impl_violates" else [], [])
    else:
        core.log("replay of %s violations re-runs the quick check (the violation is a history / process-level event)" % prop)
        os.environ["VERIF_NO_EVIDENCE"] = "0"
        CHECKS[prop]("quick")
