"""Per-property checks."""
from . import core, gen, parsecheck


def value_corpus(F, tier, name):
    rng = gen.rng_for(name)
    q = tier == "quick"
    recs = []
    recs += gen.g_plain(F, rng, 300 if q else 4000)
    recs += gen.g_midpoints(F, rng, tier, nexp=60 if q else None, nrand=1 if q else 6)
    recs += gen.g_floats_exact(F, rng, 100 if q else 2000)
    recs += gen.g_seams(F, rng)
    recs += gen.g_extremes(F, rng, big=20000 if q else 1000000)
    recs += gen.g_runs(F, rng, 150 if q else 3000)
    return gen.normalise(gen.dedup(recs))


def c01(tier):
    cfgs = ["std", "std+compact"] if tier == "quick" else core.ALL_CONFIGS
    inputs = value_corpus(gen.F64, tier, "C01")
    parsecheck.parse_property_check(
        "C01", tier, inputs, cfgs, {"VALUE"},
        rule="f64 inputs from families G1 (plain), G2 (midpoint-derived variants for every/selected exponent field), "
             "G4 (seams), G5 (extremes), G6 (run-structured); distinct = distinct (int,frac,exp) triples; "
             "every record is adjudicated by TLC with IEEE!Judge",
        level_note="TLC evaluates the declarative rounding definition (IEEE.tla) on each (input, bits) pair observed "
                   "from the real code; trusted: TLC, BigNat (model-checked against native ints), JSON limb codec")


def c02(tier):
    cfgs = ["std", "std+compact"] if tier == "quick" else core.ALL_CONFIGS
    inputs = value_corpus(gen.F32, tier, "C02")
    parsecheck.parse_property_check(
        "C02", tier, inputs, cfgs, {"VALUE"},
        rule="f32 inputs, same families as C01 with the f32 constants; single rounding is decided directly by the oracle",
        level_note="as C01")


CHECKS = {"C01": c01, "C02": c02}
