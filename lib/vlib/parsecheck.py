"""Checks whose observation is a set of parse_float records (C01 C02 C03 C04
C05 C06 C07 C15): run the real code in several compiled configurations, join
the outputs per input, let TLC adjudicate every record with CF_Parse."""
import collections
import json
import os
import time

from . import core
from .core import ToolError


class ProcessDeath(Exception):
    def __init__(self, cfg, rc, record, output):
        Exception.__init__(self, "run_parse died")
        self.cfg, self.rc, self.record, self.output = cfg, rc, record, output


def run_impl(wd, inputs, configs, profile="release", extra_args=None, name="parse", sanitizer=None, env=None, markers=False):
    """run run_parse in every configuration; returns {cfg: [records]}"""
    inp = os.path.join(wd, name + "-in.ndjson")
    core.write_ndjson(inp, [{k: v for k, v in r.items() if k not in ("tag", "expect", "render")} for r in inputs])
    outs = {}
    for cfg in configs:
        bindir = core.build_harness(cfg, profile=profile, bins=["run_parse"], sanitizer=sanitizer)
        outp = os.path.join(wd, "%s-out-%s-%s%s.ndjson" % (name, cfg.replace("+", "_"), profile, "-" + sanitizer if sanitizer else ""))
        p, _ = core.run([os.path.join(bindir, "run_parse"), "--in", inp, "--out", outp] + (extra_args or []) +
                        (["--markers"] if markers else []), timeout=1800, check=False, env=env)
        if p.returncode != 0:
            # a process death (abort / signal / sanitizer report) is data: attribute it to the record whose
            # begin marker has no result
            if markers and os.path.exists(outp):
                begun, done = [], set()
                for line in open(outp, errors="replace"):
                    try:
                        o = json.loads(line)
                    except ValueError:
                        continue
                    if "begin" in o:
                        begun.append(o["begin"])
                    elif "id" in o:
                        done.add(o["id"])
                culprit = next((b for b in reversed(begun) if b not in done), None)
                raise ProcessDeath(cfg, p.returncode, culprit, (p.stdout or "")[-3000:])
            raise ToolError("run_parse died in cfg %s (rc %d): %s" % (cfg, p.returncode, (p.stdout or "")[-2000:]))
        outs[cfg] = [o for o in core.read_ndjson(outp) if "begin" not in o]
        if len(outs[cfg]) != len(inputs):
            raise ToolError("run_parse returned %d records for %d inputs" % (len(outs[cfg]), len(inputs)))
    return outs


def merge(inputs, outs, profile_tag=""):
    """one record per input with the outputs of every configuration"""
    recs = []
    for k, r in enumerate(inputs):
        m = {"id": r["id"], "fmt": r["fmt"], "int": r["int"], "frac": r["frac"], "exp": r["exp"], "outs": []}
        if "expect" in r:
            m["expect"] = r["expect"]
            m["render"] = r.get("render", "")
        for cfg, lst in outs.items():
            o = lst[k]
            if o["id"] != r["id"]:
                raise ToolError("id mismatch")
            m["outs"].append({"cfg": cfg + profile_tag, "kind": o["out"]["kind"], "bits": o["out"]["bits"],
                              "allocs": o.get("allocs", 0), "path": o.get("path", "unknown"),
                              "num": o.get("num", {"mant": [], "exp": 0, "many": False}),
                              "mod": o.get("mod", {"mant": [], "exp": 0})})
        recs.append(m)
    return recs


CHUNK = int(os.environ.get("VERIF_CHUNK", "30000"))
CHUNK_BYTES = int(os.environ.get("VERIF_CHUNK_BYTES", "40000000"))


def adjudicate(wd, recs, flags, name, timeout=3000):
    """TLC decides every record (in chunks of CHUNK records per TLC run); returns (verdict by id, trails, result)"""
    # chunks are bounded by record count AND by JSON size (records of arbitrary bytes do not run-length compress:
    # a 160 MB chunk made TLC's JSON reader fail under 8 workers)
    chunks, cur, size = [], [], 0
    for r in recs:
        n = len(json.dumps(r))
        if cur and (len(cur) >= CHUNK or size + n > CHUNK_BYTES):
            chunks.append(cur)
            cur, size = [], 0
        cur.append(r)
        size += n
    if cur:
        chunks.append(cur)
    if len(chunks) <= 1:
        return _adjudicate(wd, recs, flags, name, timeout)
    verdicts, trails, total = {}, collections.Counter(), None
    for ci, part in enumerate(chunks):
        v, t, r = _adjudicate(wd, part, flags, "%s-%d" % (name, ci), timeout)
        verdicts.update(v)
        trails.update(t)
        if total is None:
            total = r
        else:
            total.distinct += r.distinct
            total.generated += r.generated
            for k, val in r.model.items():
                if isinstance(val, int) and k not in ("max_limbs",):
                    total.model[k] += val
                elif isinstance(val, list):
                    total.model[k] += val
                elif isinstance(val, dict):
                    for a, n in val.items():
                        total.model[k][a] = total.model[k].get(a, 0) + n
            if r.model["max_limbs"] > total.model["max_limbs"]:
                total.model["max_limbs"], total.model["max_limbs_id"] = r.model["max_limbs"], r.model["max_limbs_id"]
    return verdicts, trails, total


def _adjudicate(wd, recs, flags, name, timeout=3000):
    """one TLC run over a list of records"""
    path = os.path.join(wd, name + "-records.ndjson")
    core.write_ndjson(path, recs)
    env = {"VERIF_RECORDS": path}
    for f in ("VALUE", "AGREE", "NOPANIC", "ALLOCS", "EXPECT", "MODEL", "GARBAGE"):
        env["VERIF_CHECK_" + f] = "1" if f in flags else "0"
    res = core.tlc(os.path.join(core.SPEC, "cf", "CF_Parse.tla"), os.path.join(core.SPEC, "cf", "CF_Parse.cfg"),
                   name, env=env, coverage=False, timeout=timeout)
    verdicts = {}
    trails = collections.Counter()
    model = {"actions": collections.Counter(), "drift": 0, "drift_ids": [], "dbg": 0, "dbg_ids": [], "max_limbs": 0,
             "max_limbs_id": None, "records": 0}
    for p in res.prints:
        if isinstance(p, dict) and "id" in p:
            verdicts[p["id"]] = p
            tr = list(p["trail"])
            if tr and tr[-1].startswith("{"):
                note = json.loads(tr.pop())
                model["records"] += 1
                for a in set(note["lemire"]):
                    model["actions"][a] += 1
                for a in set(note["bellerophon"]):
                    if a.startswith("B_"):
                        model["actions"][a] += 1
                if note["drift"]:
                    model["drift"] += 1
                    model["drift_ids"].append(p["id"])
                if note["dbg"]:
                    model["dbg"] += 1
                    model["dbg_ids"].append(p["id"])
                if note["limbs"] > model["max_limbs"]:
                    model["max_limbs"] = note["limbs"]
                    model["max_limbs_id"] = p["id"]
            if p["verdict"] == "ok":
                trails[" > ".join(tr)] += 1
    model["actions"] = dict(model["actions"])
    res.model = model
    bad = core.tlc_fatal(res)
    if bad or len(verdicts) != len(recs):
        raise ToolError("TLC did not adjudicate every record (%d of %d); errors: %s; see %s" %
                        (len(verdicts), len(recs), bad[:3], os.path.join(core.WORK, "tlc-" + name + ".log")))
    return verdicts, trails, res


def path_histogram(outs):
    h = collections.Counter()
    for cfg, lst in outs.items():
        for o in lst:
            h[cfg + ":" + o.get("path", "?")] += 1
    return dict(h)


def describe(r):
    return {"fmt": r["fmt"], "int": core.segs_str(r["int"]), "frac": core.segs_str(r["frac"]), "exp": r["exp"],
            "tag": r.get("tag", "")}


def key_of(r):
    """identity of an input for the known-findings file"""
    return {"fmt": r["fmt"], "int": r["int"], "frac": r["frac"], "exp": r["exp"]}


def parse_property_check(prop, tier, inputs, configs, flags, rule, level_note, profiles=("release",),
                         extra_cov=None, mc=None):
    """generic driver for a record-based property; returns exit code via core.finish"""
    t0 = time.time()
    wd = core.workdir(prop)
    inputs = inputs
    all_recs = []
    hist = {}
    for profile in profiles:
        try:
            outs = run_impl(wd, inputs, configs, profile=profile, markers=True)
        except ProcessDeath as d:
            # the process died (signal / abort) while parsing a VALID input: that is a violation of every
            # property checked here (a value must be returned), attributed to the record whose marker has no result
            rec = next((r for r in inputs if r["id"] == d.record), None)
            v = core.write_replay(prop, {"property": prop, "what": "process died (signal / abort) on a valid input",
                                         "config": d.cfg, "profile": profile, "exit_code": d.rc,
                                         "input": describe(rec) if rec else None, "output_tail": d.output})
            core.write_evidence(prop, tier, "model_checking",
                                {"states": 1, "transitions": 1, "traces_validated_against_impl": 0, "evaluations": len(inputs),
                                 "distinct_nontrivial": len(inputs), "rule": rule, "samples": [describe(rec) if rec else {}],
                                 "explanation": "run aborted: the implementation process died"}, time.time() - t0, 1,
                                assumptions=[level_note])
            core.finish(prop, [v], [])
        for k, v in path_histogram(outs).items():
            hist[k + ("" if profile == "release" else "@" + profile)] = v
        recs = merge(inputs, outs, "" if profile == "release" else "@" + profile)
        if not all_recs:
            all_recs = recs
        else:
            for a, b in zip(all_recs, recs):
                a["outs"].extend(b["outs"])
    verdicts, trails, res = adjudicate(wd, all_recs, flags, prop)
    by_id = {r["id"]: r for r in inputs}
    violations, known_lines, tool_errors = [], [], []
    for rid, v in verdicts.items():
        if v["verdict"] == "ok":
            continue
        r = by_id[rid]
        if v["verdict"] == "impl_violates":
            rec = next(x for x in all_recs if x["id"] == rid)
            k = core.known_match(prop, key_of(r))
            if k:
                known_lines.append("%s [%s]" % (k.get("what", ""), json.dumps(describe(r))))
            else:
                violations.append(core.write_replay(prop, {"property": prop, "input": describe(r), "record": rec,
                                                           "verdict": v}))
        else:
            tool_errors.append((rid, v))
    tags = collections.Counter(r.get("tag", "") for r in inputs)
    nontrivial = len({(r["fmt"], json.dumps(r["int"]), json.dumps(r["frac"]), r["exp"]) for r in inputs})
    cov = {
        "states": res.distinct,
        "transitions": res.generated,
        "traces_validated_against_impl": len(all_recs) * max(1, len(all_recs[0]["outs"]) if all_recs else 1),
        "evaluations": len(inputs),
        "distinct_nontrivial": nontrivial,
        "rule": rule,
        "samples": [describe(r) for r in inputs[:: max(1, len(inputs) // 8)]][:10],
        "families": dict(tags),
        "impl_paths": hist,
        "spec_trails": dict(trails),
        "model": {k: (v[:20] if isinstance(v, list) else v) for k, v in res.model.items()},
        "configs": list(configs),
        "profiles": list(profiles),
        "tlc_cmd": res.cmd,
        "exhaustive": False,
    }
    if extra_cov:
        cov.update(extra_cov)
    if mc:
        cov["mc"] = mc
        cov["states"] += mc.get("states", 0)
        cov["transitions"] += mc.get("transitions", 0)
    core.write_evidence(prop, tier, "model_checking", cov, time.time() - t0, len(violations),
                        assumptions=[level_note])
    if tool_errors:
        core.log("tool errors: %s" % tool_errors[:5])
        for v in violations:
            print("VIOLATION property=%s replay=%s" % (prop, v))
        raise ToolError("%d records could not be adjudicated (generator/oracle problem), e.g. %s" %
                        (len(tool_errors), tool_errors[0]))
    core.finish(prop, violations, known_lines)
