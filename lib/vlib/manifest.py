"""Generate MANIFEST.json from the check registry (run: bin/mkmanifest)."""
import json
import os

from . import core

META = {
    "C01": dict(cat="model_checking", design="6 C01",
                text="TLC adjudicates every f64 record observed from the real code (all feature configurations) with the "
                     "declarative rounding definition IEEE!Judge; inputs are constructed on every exponent field and "
                     "every algorithm seam. Bounded exploration of an infinite input space: complete per boundary "
                     "family, not over all strings.",
                note="Trusted: TLC, the BigNat arithmetic layer (model-checked against native integers in MC_BigNat), "
                     "the oracle (checked against a constructive rounding and uniqueness in MC_IEEE), the limb JSON codec.",
                tech="TLA+ oracle (IEEE.tla) evaluated by TLC on implementation traces (trace validation)"),
    "C02": dict(cat="model_checking", design="6 C02",
                text="As C01 for f32; single rounding is decided directly because the oracle rounds the exact decimal once.",
                note="As C01.", tech="TLA+ oracle evaluated by TLC on implementation traces"),
}

META["C11"] = dict(cat="model_checking", design="6 C11",
                   text="TLC decides the stage's contract (definite => correctly rounded for w*10^q and for the whole interval "
                        "[w,w+1)*10^q when digits were dropped) on records of parse::moderate_path from default "
                        "(Eisel-Lemire) and compact (Bellerophon) builds, and checks that the action-by-action models "
                        "Lemire.tla / Bellerophon.tla reproduce every returned field.",
                   note="Release profile (value property). Inputs are constructed from exact float midpoints for every "
                        "exponent field; u64 x i32 x bool is not enumerated. Trusted base as C01.",
                   tech="TLA+ contract + algorithm model (Lemire.tla, Bellerophon.tla) checked by TLC against implementation traces")

_TB = "Trusted base as C01 (TLC, BigNat layer checked in MC_BigNat, oracle checked in MC_IEEE, limb JSON codec)."
META["C03"] = dict(cat="model_checking", design="6 C03",
                   text="Floats over every exponent field x significand patterns are rendered three ways by Rust's formatter; TLC first "
                        "validates each rendering against the model (it must round to / equal the float), then requires the real "
                        "parser to return exactly that float, in several configurations.",
                   note="The formatter is not trusted (renderings are validated by TLC). 2^31 / 2^63 floats are not enumerated. " + _TB,
                   tech="TLC trace validation of (rendering, result) records against the TLA+ oracle")
META["C04"] = dict(cat="model_checking", design="6 C04",
                   text="Valid inputs up to 10^6 digits and exponents over the whole i32 range are run in release and in a "
                        "debug-assertions+overflow-checks build under catch_unwind; TLC validates input validity and "
                        "outcome = value; the MinLex model runs alongside and must raise no debug assertion and stay within 62 limbs.",
                   note="Observation instrument: catch_unwind / exit status; the specification supplies the permitted outcome and the "
                        "capacity measurement. " + _TB,
                   tech="TLC trace validation of outcome records + algorithm model invariants (no debug assertion, limbs <= 62)")
META["C05"] = dict(cat="model_checking", design="6 C05",
                   text="Every input is run in 5 (quick) / 8 (thorough) separately compiled feature configurations, joined by id; "
                        "TLC requires identical outcome and bits pairwise and agreement with the oracle.",
                   note="No oracle needed for the agreement verdict. " + _TB,
                   tech="TLC trace validation of per-input result tuples across configurations")
META["C06"] = dict(cat="model_checking", design="6 C06",
                   text="Inputs with 20 .. 10^6 significant digits built around exact midpoints (far-out digits, tails of 9s, "
                        "trailing zeros, truncations at 19 digits and MAX_DIGITS) are adjudicated by TLC with the oracle on "
                        "run-length digit strings; the MinLex model (parse_mantissa cut + sticky) runs alongside.",
                   note="Oracle keeps the first 800 significant digits + a tail flag, which is exact for these formats. " + _TB,
                   tech="TLA+ oracle + pipeline model evaluated by TLC on implementation traces")
META["C07"] = dict(cat="model_checking", design="6 C07",
                   text="Range-end families (every subnormal exponent position, smallest/largest finite, 2^-1075, overflow "
                        "threshold, zero significands, exponents to the i32 limits with compensating strings) adjudicated by TLC.",
                   note=_TB, tech="TLA+ oracle + pipeline model evaluated by TLC on implementation traces")
META["C09"] = dict(cat="model_checking", design="6 C09",
                   text="Ascending chains across every algorithm switch-over; TLC re-derives the order claim by exact comparison "
                        "and requires the returned bits never to descend, in each configuration.",
                   note="No rounding oracle involved; chains are constructed, pairs are not enumerated. " + _TB,
                   tech="TLC trace validation of chains (exact decimal comparison in TLA+)")
META["C10"] = dict(cat="model_checking", design="6 C10",
                   text="Groups of representations of one value (every split point, appended zeros, digits moved into the "
                        "exponent); TLC verifies they denote the same number and that all bits are identical.",
                   note="No rounding oracle involved. " + _TB,
                   tech="TLC trace validation of groups (exact decimal comparison in TLA+)")
META["C15"] = dict(cat="model_checking", design="6 C15",
                   text="Allocation requests counted by a global allocator around each parse_float call in the no-alloc "
                        "configurations; TLC validates allocs = 0 per record on inputs that reach the big-integer path.",
                   note="Observation instrument: counting #[global_allocator] (per thread). " + _TB,
                   tech="TLC trace validation of allocation-count records")

META["C14"] = dict(cat="model_checking", design="6 C14",
                   text="Finite and complete: every table entry and on-demand power in each configuration is dumped from the real "
                        "code and compared by TLC with Tables.tla; the specification's own data module is proved against the "
                        "mathematical definitions by MC_Tables (multiplication only, 2101 data).",
                   note="Definitions are those of etc/lemire_table.py / bellerophon_table.py restated in TLA+. " + _TB,
                   tech="TLC: MC_Tables (data vs definitions) + trace validation of the dumped constants")
META["C17"] = dict(cat="model_checking", design="6 C17",
                   text="MC_Fields checks decode / encode / b / b+h equations on ALL bit patterns of four small formats; the real "
                        "helpers are run on every exponent field x both signs x fraction patterns of f32 and f64 and compared by "
                        "TLC with IEEE!Decode / Encode.",
                   note="2^32 / 2^64 patterns are not enumerated through TLC. " + _TB,
                   tech="TLC model checking of the codec on small formats + trace validation of helper records")
META["C18"] = dict(cat="model_checking", design="6 C18",
                   text="MC_Round checks the model of rounding::round against constructive rounding and the oracle on structured "
                        "64-bit significands for two small formats; the real round() is run over the exponent range with "
                        "significands built per shift (carry / tie / just below / just above) and adjudicated by TLC; the model "
                        "must reproduce the returned (mant, exp) (drift reported). In addition Apalache proves the arithmetic lemma "
                        "(q+up is a nearest multiple of 2^shift, even on ties; q the largest below) for all 2^63 significands, for "
                        "two literal shifts in quick and all 64 in thorough.",
                   note="Truncating variant judged below 2^(emax+1) only (the callers' domain; above it the code saturates to infinity). " + _TB,
                   tech="TLC model checking of Rounding.tla + trace validation of round() records against the oracle; Apalache lemma per literal shift")

META["C13"] = dict(cat="model_checking", design="6 C13",
                   text="MC_Vec explores the vector specification exhaustively (2-bit limbs, capacity 3, every operation and "
                        "argument, each transition asserted against the bounded-sequence contract and the numeric meaning of the "
                        "small arithmetic / ordering / hi64); TLC-simulated histories (LBITS 64, CAP 62) are replayed into the real "
                        "StackVec and HeapVec step by step, and histories recorded from the real code are validated by the "
                        "CF_Vec trace specification.",
                   note="Safe API only; ordering and hi64 judged on normalised operands. Histories are sampled, not enumerated, at "
                        "the real capacity. " + _TB,
                   tech="TLC exhaustive model checking of Vec.tla + TLC-generated history replay + trace validation (CF_Vec)")

META["C12"] = dict(cat="model_checking", design="6 C12",
                   text="MC_Bigint checks the limb-level algorithms (carry loops, resize-before-add, partial products, bit/limb "
                        "shifts, stepped powers) against arithmetic on naturals for every pair of operand vectors in a small scope, "
                        "including failure exactly on capacity overflow; operations on real 64-bit-limb operands up to and beyond "
                        "the 62-limb capacity (function and operator forms) are adjudicated by TLC at the value level and compared with "
                        "the limb-level model, in stack and heap builds.",
                   note="Operands restricted to the range the property names (non-zero normalised factors; normalised input for "
                        "hi64 / compare). " + _TB,
                   tech="TLC exhaustive small-scope model checking of BigintOps.tla + trace validation of operation records")

META["C19"] = dict(cat="model_checking", design="6 C19",
                   text="MC_FrontEnd proves the scanner state machine equal to the declarative longest-prefix definition on all "
                        "strings up to length 4 / 5 over a 16-symbol alphabet; every shipped copy of the front-end is extracted "
                        "from the repository, compiled against /repo and run on exhaustive short strings, constructed long cases "
                        "and random bytes; TLC requires value (oracle), sign, exact suffix and outcome = value per copy and format.",
                   note="Copies are located textually (fn parse_sign .. end of fn parse_float); a copy that cannot be located is a "
                        "tool error. " + _TB,
                   tech="TLC model checking of FrontEnd.tla (operational = declarative) + trace validation of front-end records")

META["C08"] = dict(cat="model_checking", design="6 C08",
                   text="Arbitrary bytes (every value, run-structured and random, all exponent classes) are run under catch_unwind in "
                        "release, debug-assertions+overflow-checks and AddressSanitizer builds (Miri with Tree Borrows in thorough) with "
                        "begin/end markers; TLC validates outcome in {value, clean panic} per record and runs the parse_number model on "
                        "the garbage; MC_Garbage checks the unchecked-index obligations of the model for all Number classes.",
                   note="The specification fixes the permitted outcomes and bounds obligations; detection of an undefined access in the "
                        "binary is by the instruments (ASan, core's UB-precondition checks, Miri). Stacked Borrows is not used (see DESIGN F2). " + _TB,
                   tech="TLC trace validation of outcome records + model checking of index obligations; instruments: ASan, debug UB checks, Miri")
META["C16"] = dict(cat="model_checking", design="6 C16",
                   text="MC_Calls explores every interleaving of 3 threads x 2 inputs x every initial stack content of the call model "
                        "(uninitialised per-frame scratch vector, write-before-length, no shared state, no memo) and checks that the four "
                        "failure designs (shared scratch, length before write, per-thread / global memo keyed by a prefix) are caught; the real parse_float is called with 11 iterator shapes after stack "
                        "poisoning, from 8 concurrent threads, and in histories of related inputs run back to back on one thread (19-digit "
                        "prefix / just below / exact tie / just above a midpoint, exponent one off, other float format); the CF_Calls "
                        "trace specification accepts a Return only if it carries what a fresh process returns for that input alone.",
                   note="Verdicts compare bits only (no timing). The interleavings of real threads are whatever the scheduler produced. " + _TB,
                   tech="TLC model checking of Calls.tla (all interleavings) + trace validation of per-thread call/return events")

PENDING = "check not built yet in this revision of /verif (planned; see DESIGN.md section 6)"


def build():
    from . import props
    checks = []
    for pid in sorted(props.CHECKS):
        m = META[pid]
        checks.append({
            "property_id": pid,
            "quick_cmd": "bin/check %s --tier quick" % pid,
            "thorough_cmd": "bin/check %s --tier thorough" % pid,
            "evidence_file": "/verif/evidence/%s.json" % pid,
            "replay_cmd_template": "bin/check %s --replay {path}" % pid,
            "engine": "tlc",
            "level_claimed": {"category": m["cat"], "text": m["text"], "design_ref": m["design"]},
            "level_note": m["note"],
            "technique": m["tech"],
        })
    allp = [json.loads(l)["id"] for l in open(os.path.join(core.ROOT, "properties.jsonl"))]
    na = [{"property_id": p, "reason": NA.get(p, PENDING)} for p in allp if p not in props.CHECKS]
    man = {
        "version": 1,
        "setup_cmd": "bin/setup",
        "hooks": {
            "guard": "cargo feature `verif` of minimal-lexical (off by default)",
            "enable": "the harness (harness/Cargo.toml) depends on /repo by path and forwards `--features verif`; "
                      "bin/check builds it with cargo --offline from /repo's working tree on every run",
            "baseline_off_cmd": "cd /repo && cargo test --workspace --no-fail-fast --offline",
            "source_commits": ["6e71ef1"],
            "add_only": True,
        },
        "engines": [
            {"name": "tlc", "path": "bin/tlc", "serves_properties": sorted(props.CHECKS),
             "kind_free_text": "TLC 1.8 on the TLA+ modules under spec/ (MC_* design-level model checking, CF_* "
                               "conformance / trace validation of records produced by the Rust harness)"},
            {"name": "harness", "path": "harness/", "serves_properties": sorted(props.CHECKS),
             "kind_free_text": "Rust crate with a path dependency on /repo; runs the real code and writes NDJSON traces"},
        ],
        "checks": checks,
        "not_applicable": na,
        "notes": "Exit codes: 0 held, 1 violation (VIOLATION line + replay file), 2 tool error. Known findings: "
                 "known_findings.json (one genuine defect found and fixed: 72f2111).",
    }
    with open(os.path.join(core.ROOT, "MANIFEST.json"), "w") as f:
        json.dump(man, f, indent=1)
        f.write("\n")
    return man


NA = {}
