"""Generate MANIFEST.json from the check registry (run: bin/mkmanifest)."""
import json
import os

from . import core

META = {
    "C01": dict(cat="model_checking", design="6 C01",
                text="TLC adjudicates every f64 record observed from the real code (all feature configurations) with the "
                     "declarative rounding definition IEEE!Judge; inputs are constructed on every exponent field and "
                     "every algorithm seam. Bounded exploration of an infinite input space: complete per boundary "
                     "family, not over all strings.",
                note="Trusted: TLC, the BigNat arithmetic layer (model-checked against native integers in MC_BigNat), "
                     "the oracle (checked against a constructive rounding and uniqueness in MC_IEEE), the limb JSON codec.",
                tech="TLA+ oracle (IEEE.tla) evaluated by TLC on implementation traces (trace validation)"),
    "C02": dict(cat="model_checking", design="6 C02",
                text="As C01 for f32; single rounding is decided directly because the oracle rounds the exact decimal once.",
                note="As C01.", tech="TLA+ oracle evaluated by TLC on implementation traces"),
}

META["C11"] = dict(cat="model_checking", design="6 C11",
                   text="TLC decides the stage's contract (definite => correctly rounded for w*10^q and for the whole interval "
                        "[w,w+1)*10^q when digits were dropped) on records of parse::moderate_path from default "
                        "(Eisel-Lemire) and compact (Bellerophon) builds, and checks that the action-by-action models "
                        "Lemire.tla / Bellerophon.tla reproduce every returned field.",
                   note="Release profile (value property). Inputs are constructed from exact float midpoints for every "
                        "exponent field; u64 x i32 x bool is not enumerated. Trusted base as C01.",
                   tech="TLA+ contract + algorithm model (Lemire.tla, Bellerophon.tla) checked by TLC against implementation traces")

PENDING = "check not built yet in this revision of /verif (planned; see DESIGN.md section 6)"


def build():
    from . import props
    checks = []
    for pid in sorted(props.CHECKS):
        m = META[pid]
        checks.append({
            "property_id": pid,
            "quick_cmd": "bin/check %s --tier quick" % pid,
            "thorough_cmd": "bin/check %s --tier thorough" % pid,
            "evidence_file": "/verif/evidence/%s.json" % pid,
            "replay_cmd_template": "bin/check %s --replay {path}" % pid,
            "engine": "tlc",
            "level_claimed": {"category": m["cat"], "text": m["text"], "design_ref": m["design"]},
            "level_note": m["note"],
            "technique": m["tech"],
        })
    allp = [json.loads(l)["id"] for l in open(os.path.join(core.ROOT, "properties.jsonl"))]
    na = [{"property_id": p, "reason": NA.get(p, PENDING)} for p in allp if p not in props.CHECKS]
    man = {
        "version": 1,
        "setup_cmd": "bin/setup",
        "hooks": {
            "guard": "cargo feature `verif` of minimal-lexical (off by default)",
            "enable": "the harness (harness/Cargo.toml) depends on /repo by path and forwards `--features verif`; "
                      "bin/check builds it with cargo --offline from /repo's working tree on every run",
            "baseline_off_cmd": "cd /repo && cargo test --workspace --no-fail-fast --offline",
            "source_commits": ["6e71ef1"],
            "add_only": True,
        },
        "engines": [
            {"name": "tlc", "path": "bin/tlc", "serves_properties": sorted(props.CHECKS),
             "kind_free_text": "TLC 1.8 on the TLA+ modules under spec/ (MC_* design-level model checking, CF_* "
                               "conformance / trace validation of records produced by the Rust harness)"},
            {"name": "harness", "path": "harness/", "serves_properties": sorted(props.CHECKS),
             "kind_free_text": "Rust crate with a path dependency on /repo; runs the real code and writes NDJSON traces"},
        ],
        "checks": checks,
        "not_applicable": na,
        "notes": "Exit codes: 0 held, 1 violation (VIOLATION line + replay file), 2 tool error. Known findings: "
                 "known_findings.json (one genuine defect found and fixed: 72f2111).",
    }
    with open(os.path.join(core.ROOT, "MANIFEST.json"), "w") as f:
        json.dump(man, f, indent=1)
        f.write("\n")
    return man


NA = {}
