"""Shared driver machinery: paths, subprocesses, harness builds, TLC runs,
evidence files, known findings, violation reporting.

Exit codes of every check: 0 = property held on everything explored,
1 = violation (a line `VIOLATION property=<id> replay=<path>` was printed),
2 = tool error / timeout / build failure (never a VIOLATION line).
"""
import hashlib
import json
import os
import re
import shutil
import subprocess
import sys
import time

ROOT = os.path.dirname(os.path.dirname(os.path.dirname(os.path.abspath(__file__))))
REPO = os.environ.get("VERIF_REPO", "/repo")
WORK = os.path.join(ROOT, "work")
SPEC = os.path.join(ROOT, "spec")
HARNESS = os.path.join(ROOT, "harness")
if REPO != "/repo":
    # checks normally run against /repo itself; for background experiments on a snapshot of the repository
    # (VERIF_REPO=<dir>) the harness is copied with its path dependency re-pointed
    _alt = os.path.join(ROOT, "work", "harness-alt")
    os.makedirs(os.path.dirname(_alt), exist_ok=True)
    if not os.path.exists(os.path.join(_alt, "Cargo.toml")) or \
            open(os.path.join(HARNESS, "Cargo.toml")).read().replace('path = "/repo"', 'path = "%s"' % REPO) != open(os.path.join(_alt, "Cargo.toml")).read():
        shutil.rmtree(_alt, ignore_errors=True)
        shutil.copytree(HARNESS, _alt, ignore=shutil.ignore_patterns("target"))
        _t = open(os.path.join(_alt, "Cargo.toml")).read().replace('path = "/repo"', 'path = "%s"' % REPO)
        open(os.path.join(_alt, "Cargo.toml"), "w").write(_t)
    else:
        for _f in ("build.rs", "src/lib.rs"):
            shutil.copy(os.path.join(HARNESS, _f), os.path.join(_alt, _f))
        for _f in os.listdir(os.path.join(HARNESS, "src", "bin")):
            shutil.copy(os.path.join(HARNESS, "src", "bin", _f), os.path.join(_alt, "src", "bin", _f))
    HARNESS = _alt
EVIDENCE = os.path.join(ROOT, "evidence")
KNOWN = os.path.join(ROOT, "known_findings.json")

ALL_CONFIGS = ["std", "std+compact", "std+alloc", "std+compact+alloc",
               "none", "compact", "alloc", "compact+alloc"]


class ToolError(Exception):
    pass


def seed():
    try:
        return int(os.environ.get("VERIF_SEED", "20260926"))
    except ValueError:
        return 20260926


def log(*a):
    print(*a, file=sys.stderr, flush=True)


def workdir(name):
    d = os.path.join(WORK, name)
    shutil.rmtree(d, ignore_errors=True)
    os.makedirs(d, exist_ok=True)
    return d


def run(cmd, cwd=None, env=None, timeout=None, check=True, capture=True):
    e = dict(os.environ)
    e.setdefault("CARGO_NET_OFFLINE", "true")
    e.setdefault("VERIF_REPO", REPO)
    if env:
        e.update(env)
    t0 = time.time()
    try:
        p = subprocess.run(cmd, cwd=cwd, env=e, timeout=timeout,
                           stdout=subprocess.PIPE if capture else None,
                           stderr=subprocess.STDOUT if capture else None,
                           text=True, errors="replace")
    except subprocess.TimeoutExpired as ex:
        raise ToolError("timeout after %ss: %s" % (timeout, " ".join(cmd))) from ex
    if check and p.returncode != 0:
        raise ToolError("command failed (%d): %s\n%s" % (p.returncode, " ".join(cmd), (p.stdout or "")[-4000:]))
    return p, time.time() - t0


# ------------------------------------------------------------------ harness

def cfg_features(cfg, verif=True):
    feats = [] if cfg == "none" else cfg.split("+")
    if verif:
        feats.append("verif")
    return ",".join(feats)


def build_harness(cfg, profile="release", bins=None, verif=True, sanitizer=None):
    """Build the harness against /repo's working tree in one feature
    configuration; returns the directory holding the binaries."""
    tdir = os.path.join(HARNESS, "target", cfg.replace("+", "_") + ("" if verif else "_nohook") +
                        ("_" + sanitizer if sanitizer else ""))
    cmd = ["cargo"]
    env = {}
    if sanitizer == "asan":
        cmd += ["+nightly"]
        env["RUSTFLAGS"] = "-Zsanitizer=address"
    cmd += ["build", "--offline", "--target-dir", tdir]
    if profile == "release":
        cmd += ["--release"]
    else:
        cmd += ["--profile", profile]
    feats = cfg_features(cfg, verif)
    if feats:
        cmd += ["--features", feats]
    if bins:
        for b in bins:
            cmd += ["--bin", b]
    if sanitizer == "asan":
        cmd += ["--target", "x86_64-unknown-linux-gnu"]
    run(cmd, cwd=HARNESS, env=env, timeout=1200)
    sub = "release" if profile == "release" else profile
    if sanitizer == "asan":
        return os.path.join(tdir, "x86_64-unknown-linux-gnu", sub)
    return os.path.join(tdir, sub)


# --------------------------------------------------------------------- JSON

LB = 15


def limbs(v):
    out = []
    while v:
        out.append(v & 0x7fff)
        v >>= LB
    return out


def from_limbs(l):
    r = 0
    for i, x in enumerate(l):
        r |= x << (LB * i)
    return r


def segs(s):
    """digit string (str of 0-9) -> run-length segments of digit values"""
    out = []
    lit = []
    i = 0
    n = len(s)
    while i < n:
        j = i
        while j < n and s[j] == s[i]:
            j += 1
        r = j - i
        v = ord(s[i]) - 48
        if r >= 8:
            if lit:
                out.append({"d": lit, "n": 1})
                lit = []
            out.append({"d": [v], "n": r})
        else:
            lit.extend([v] * r)
        i = j
    if lit:
        out.append({"d": lit, "n": 1})
    return out


def segs_len(S):
    return sum(len(s["d"]) * s["n"] for s in S)


def segs_str(S, limit=60):
    """human-readable rendering of a segment string"""
    parts = []
    for s in S:
        d = "".join(chr(48 + (v % 256)) if 0 <= v <= 9 else "\\x%02x" % ((v + 48) % 256) for v in s["d"])
        parts.append(d if s["n"] == 1 else "(%s)x%d" % (d, s["n"]))
    r = "".join(parts)
    return r if len(r) <= limit else r[:limit] + "...[%d]" % segs_len(S)


def write_ndjson(path, recs):
    with open(path, "w") as f:
        for r in recs:
            f.write(json.dumps(r, separators=(",", ":")))
            f.write("\n")


def read_ndjson(path):
    out = []
    with open(path) as f:
        for line in f:
            line = line.strip()
            if line:
                out.append(json.loads(line))
    return out


# ---------------------------------------------------------------------- TLC

class TlcResult:
    def __init__(self):
        self.rc = None
        self.out = ""
        self.generated = 0
        self.distinct = 0
        self.coverage = {}     # action name -> (distinct, total)
        self.prints = []       # decoded PrintT payloads (python objects where JSON, else raw str)
        self.errors = []       # error blocks
        self.invariant_violations = 0
        self.wall = 0.0
        self.cmd = ""


_TLA_STR = re.compile(r'"((?:[^"\\]|\\.)*)"')


def _decode_tla_string(s):
    return bytes(s, "utf-8").decode("unicode_escape") if "\\" in s else s


def tlc(module_path, cfg_path, name, env=None, workers=None, coverage=True, cont=True,
        timeout=1800, simulate=None, heap="8g", deadlock=False, dfs=False, seed_arg=None, extra=None):
    """Run TLC; parse summary, coverage and `VP|...` print lines."""
    if workers is None:
        workers = int(os.environ.get("VERIF_WORKERS", "16"))
    meta = os.path.join(WORK, "tlc-" + name)
    shutil.rmtree(meta, ignore_errors=True)
    os.makedirs(meta, exist_ok=True)
    jopts = "-Xmx%s" % heap
    if dfs:
        jopts += " -Dtlc2.tool.queue.IStateQueue=StateDeque"
    cmd = [os.path.join(ROOT, "bin", "tlc"), "-workers", str(workers), "-metadir", meta,
           "-cleanup", "-noGenerateSpecTE", "-config", cfg_path]
    if coverage:
        cmd += ["-coverage", "1"]
    if cont:
        cmd += ["-continue"]
    if simulate:
        cmd += ["-simulate", simulate[0], "-depth", str(simulate[1])]
    if seed_arg is not None:
        cmd += ["-seed", str(seed_arg)]
    if extra:
        cmd += list(extra)
    if deadlock:
        cmd += ["-deadlock"]
    cmd += [module_path]
    e = {"TLC_JAVA_OPTS": jopts}
    if env:
        e.update({k: str(v) for k, v in env.items()})
    res = TlcResult()
    res.cmd = " ".join(cmd)
    p, wall = run(["timeout", str(timeout)] + cmd, cwd=os.path.dirname(module_path), env=e,
                  timeout=timeout + 30, check=False)
    res.rc = p.returncode
    res.out = p.stdout or ""
    res.wall = wall
    shutil.rmtree(meta, ignore_errors=True)
    with open(os.path.join(WORK, "tlc-" + name + ".log"), "w") as f:
        f.write(res.cmd + "\n" + res.out)
    for line in res.out.splitlines():
        m = re.match(r"^(\d+) states generated, (\d+) distinct states found", line)
        if m:
            res.generated = int(m.group(1))
            res.distinct = int(m.group(2))
        m = re.match(r"^<(\w+) line (\d+), col \d+ to line \d+, col \d+ of module (\w+)>: (\d+):(\d+)", line)
        if m:
            key = m.group(1)
            d, t = int(m.group(4)), int(m.group(5))
            if key in res.coverage:
                d0, t0 = res.coverage[key]
                res.coverage[key] = (max(d0, d), max(t0, t))
            else:
                res.coverage[key] = (d, t)
        if line.startswith('"VP|'):
            m = _TLA_STR.match(line)
            if m:
                payload = _decode_tla_string(m.group(1))[3:]
                try:
                    res.prints.append(json.loads(payload))
                except ValueError:
                    res.prints.append(payload)
        elif line.startswith("<<\"VP\""):
            res.prints.append(line)
        if line.startswith("Error:"):
            res.errors.append(line)
            if "Invariant" in line and "violated" in line:
                res.invariant_violations += 1
    if res.rc == 124:
        raise ToolError("TLC timeout (%ss) in %s" % (timeout, name))
    return res


def tlc_fatal(res):
    """Errors other than invariant violations -> tool error."""
    bad = [e for e in res.errors if not ("Invariant" in e and "violated" in e)
           and "The behavior up to this point" not in e]
    return bad


# ----------------------------------------------------------------- findings

def load_known():
    if not os.path.exists(KNOWN):
        return []
    with open(KNOWN) as f:
        return json.load(f).get("findings", [])


def known_match(prop, key):
    """An open finding suppresses only the record whose key matches exactly."""
    for k in load_known():
        if k.get("status") == "open" and k.get("property") == prop and k.get("key") == key:
            return k
    return None


def write_replay(prop, rec):
    d = os.path.join(WORK, "violations")
    os.makedirs(d, exist_ok=True)
    h = hashlib.sha1(json.dumps(rec, sort_keys=True).encode()).hexdigest()[:12]
    p = os.path.join(d, "%s-%s.json" % (prop, h))
    with open(p, "w") as f:
        json.dump(rec, f, indent=1, sort_keys=True)
    return p


def write_evidence(prop, tier, level, coverage, wall, violations=0, assumptions=None):
    if os.environ.get("VERIF_NO_EVIDENCE") == "1":      # --replay runs do not replace the evidence of the last check run
        return None
    os.makedirs(EVIDENCE, exist_ok=True)
    ev = {
        "property_id": prop,
        "tier": tier,
        "seed": seed(),
        "level": level,
        "coverage": coverage,
        "assumptions": assumptions or [],
        "wall_s": round(wall, 2),
        "violations": violations,
    }
    with open(os.path.join(EVIDENCE, prop + ".json"), "w") as f:
        json.dump(ev, f, indent=1, sort_keys=True)
        f.write("\n")
    return ev


def finish(prop, violations, known_lines):
    """Print KNOWN-FINDING / VIOLATION lines and exit."""
    for k in known_lines:
        print("KNOWN-FINDING: property=%s %s" % (prop, k), flush=True)
    for v in violations[:25]:
        print("VIOLATION property=%s replay=%s" % (prop, v), flush=True)
    if len(violations) > 25:
        print("... %d more violations (replay files under work/violations/)" % (len(violations) - 25), flush=True)
    sys.exit(1 if violations else 0)
