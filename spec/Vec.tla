--------------------------------- MODULE Vec ---------------------------------
(***************************************************************************)
(* src/stackvec.rs / src/heapvec.rs: the length-bounded vector of limbs     *)
(* that carries the big integers, with the small arithmetic of              *)
(* src/bigint.rs that the vector types re-export (add_small, mul_small,     *)
(* normalize, from_u64, compare, hi64).                                     *)
(*                                                                         *)
(* A vector is a sequence of limbs; a limb is a BigNat below 2^LBITS.       *)
(* LBITS = 64 and CAP = 62 are the real code; MC_Vec uses 2-bit limbs and   *)
(* CAP = 3 so that the whole state space is explored.  Every operation is   *)
(* written as the code's loop over limbs (carry chains included) and        *)
(* returns [v |-> new contents, r |-> result]; r is "ok" / "none" for the   *)
(* Option<()> operations.  Heap = TRUE models HeapVec (never refuses).      *)
(***************************************************************************)
EXTENDS BigNat

CONSTANTS LBITS, CAP, Heap

LimbMax == Sub(Pow2(LBITS), <<1>>)
IsLimb(x) == BitLen(x) <= LBITS
IsVec(v) == (Heap \/ Len(v) <= CAP) /\ \A k \in 1..Len(v) : IsLimb(v[k])

\* numeric value of a vector (little endian)
ValueOfVec(v) ==
  FoldLeft(LAMBDA acc, k: Add(acc, Shl(v[k], LBITS * (k - 1))), <<>>, Idx(Len(v)))

Normalized(v) == v = <<>> \/ v[Len(v)] # <<>>

\* ------------------------------------------------------------ sequence API
TryPush(v, x) ==
  IF Heap \/ Len(v) < CAP THEN [v |-> Append(v, x), r |-> "ok"] ELSE [v |-> v, r |-> "none"]

Pop(v) ==
  IF v = <<>> THEN [v |-> v, r |-> "none", x |-> <<>>]
  ELSE [v |-> SubSeq(v, 1, Len(v) - 1), r |-> "some", x |-> v[Len(v)]]

TryExtend(v, s) ==
  IF Heap \/ Len(v) + Len(s) <= CAP THEN [v |-> v \o s, r |-> "ok"] ELSE [v |-> v, r |-> "none"]

TryResize(v, n, x) ==
  IF ~Heap /\ n > CAP THEN [v |-> v, r |-> "none"]
  ELSE IF n > Len(v) THEN [v |-> v \o [k \in 1..(n - Len(v)) |-> x], r |-> "ok"]
  ELSE [v |-> SubSeq(v, 1, n), r |-> "ok"]

TryFrom(s) == TryExtend(<<>>, s)

\* normalize: pop high zero limbs
Normalize(v) ==
  LET k == FoldLeft(LAMBDA acc, j: IF v[j] # <<>> THEN j ELSE acc, 0, Idx(Len(v)))
  IN SubSeq(v, 1, k)

\* --------------------------------------------------------- small arithmetic
\* scalar_add(x, y) -> (wrapped sum, carry flag)
ScalarAdd(x, y) == LET s == Add(x, y) IN [lo |-> ModPow2(s, LBITS), c |-> Bit(s, LBITS)]
\* scalar_mul(x, y, carry) -> (lo, hi)
ScalarMul(x, y, c) == LET z == Add(Mul(x, y), c) IN [lo |-> ModPow2(z, LBITS), hi |-> Shr(z, LBITS)]

\* small_add_from(x, y, start): carry loop stops as soon as the carry is zero
SmallAddFrom(v, y, start) ==
  LET st == FoldLeft(LAMBDA acc, k:
                       IF k <= start \/ acc.c = <<>> THEN acc
                       ELSE LET s == ScalarAdd(acc.v[k], acc.c)
                            IN [v |-> [acc.v EXCEPT ![k] = s.lo], c |-> FromInt(s.c)],
                     [v |-> v, c |-> y], Idx(Len(v)))
  IN IF st.c # <<>> THEN TryPush(st.v, st.c) ELSE [v |-> st.v, r |-> "ok"]
SmallAdd(v, y) == SmallAddFrom(v, y, 0)

\* small_mul(x, y)
SmallMul(v, y) ==
  LET st == FoldLeft(LAMBDA acc, k:
                       LET m == ScalarMul(acc.v[k], y, acc.c)
                       IN [v |-> [acc.v EXCEPT ![k] = m.lo], c |-> m.hi],
                     [v |-> v, c |-> <<>>], Idx(Len(v)))
  IN IF st.c # <<>> THEN TryPush(st.v, st.c) ELSE [v |-> st.v, r |-> "ok"]

\* from_u64(x) for LBITS = 64 (one limb, then normalize)
FromU64(x) == Normalize(<<x>>)

\* compare(x, y): lengths first, then limbs from the top
CompareVec(x, y) ==
  IF Len(x) < Len(y) THEN -1 ELSE IF Len(x) > Len(y) THEN 1
  ELSE FoldLeft(LAMBDA acc, k: LET c == Cmp(x[k], y[k]) IN IF c # 0 THEN c ELSE acc, 0, Idx(Len(x)))
EqVec(x, y) == Len(x) = Len(y) /\ x = y

\* hi64 for LBITS = 64: top 64 bits left-aligned + "any lower bit set" (normalised input)
Hi64Vec(v) ==
  LET n == Len(v) IN
  IF n = 0 THEN [hi |-> <<>>, sticky |-> FALSE]
  ELSE LET r0 == v[n]
           ls == LBITS - BitLen(r0)
       IN IF n = 1 THEN [hi |-> Shl(r0, ls), sticky |-> FALSE]
          ELSE LET r1 == v[n - 1]
                   hi == IF ls = 0 THEN r0 ELSE Add(ModPow2(Shl(r0, ls), LBITS), Shr(r1, LBITS - ls))
                   low == ModPow2(Shl(r1, ls), LBITS) # <<>>
                   rest == \E k \in 1..(n - 2) : v[k] # <<>>
               IN [hi |-> hi, sticky |-> low \/ rest]

\* ------------------------------------------------- numeric meaning (properties)
\* what each arithmetic operation must mean on naturals when it succeeds
SmallAddMeans(v, y, out) == out.r = "ok" => ValueOfVec(out.v) = Add(ValueOfVec(v), y)
SmallMulMeans(v, y, out) == out.r = "ok" => ValueOfVec(out.v) = Mul(ValueOfVec(v), y)
\* stack back-end: failure exactly when the result needs more than CAP limbs
SmallAddFails(v, y, out) == ~Heap => (out.r = "none" <=> BitLen(Add(ValueOfVec(v), y)) > LBITS * CAP)
SmallMulFails(v, y, out) == ~Heap => (out.r = "none" <=> BitLen(Mul(ValueOfVec(v), y)) > LBITS * CAP)
\* ordering agrees with numeric comparison on normalised operands
CompareMeans(x, y) ==
  (Normalized(x) /\ Normalized(y)) =>
     /\ CompareVec(x, y) = Cmp(ValueOfVec(x), ValueOfVec(y))
     /\ EqVec(x, y) = (ValueOfVec(x) = ValueOfVec(y))
\* top bits
Hi64Means(v) ==
  (Normalized(v) /\ v # <<>>) =>
     LET val == ValueOfVec(v)  bl == BitLen(val)  h == Hi64Vec(v) IN
     IF bl <= LBITS THEN h.hi = Shl(val, LBITS - bl) /\ ~h.sticky
     ELSE h.hi = Shr(val, bl - LBITS) /\ h.sticky = (ModPow2(val, bl - LBITS) # <<>>)
=============================================================================
