CONSTANTS
  LB = 15
  FmtName = "F8"
  MaxD = 999
  ENeg = 8
  EMaxC = 3
  AllPatterns = TRUE
SPECIFICATION Spec
INVARIANT TypeOK
CHECK_DEADLOCK FALSE
