------------------------------ MODULE MC_Round ------------------------------
(* C18 at the design level.  The model of rounding::round (Rounding!Round)    *)
(* against the constructive RN and the oracle, for the small format F8 and    *)
(* BF16, on 64-bit significands whose top 12 bits range over ALL values with  *)
(* the top bit set and whose remaining 52 bits take the patterns that decide  *)
(* rounding (all zeros, lowest one, all ones, a single high one, high zero    *)
(* rest ones), for every biased exponent that keeps the shift <= 64.          *)
EXTENDS Rounding

CONSTANT HiStep
VARIABLES f, hi, lowpat, e, phase
vars == <<f, hi, lowpat, e, phase>>
Fmts == <<F8, BF16>>

Low(p) == CASE p = 0 -> <<>>
            [] p = 1 -> <<1>>
            [] p = 2 -> Sub(Pow2(52), <<1>>)
            [] p = 3 -> Pow2(51)
            [] p = 4 -> Sub(Pow2(51), <<1>>)
            [] p = 5 -> Add(Pow2(51), <<1>>)
Mant == Add(Shl(FromInt(hi), 52), Low(lowpat))

ELo == -63
EHi(F) == EMaxField(F) + 66

Holds(F) ==
  LET fp == [mant |-> Mant, exp |-> e]
      val == BinVal(Mant, e - ExpBias(F))
      rn == RoundNearest(F, fp)
      packed == ExtendedToFloat(F, rn)
      rd == RoundDown(F, fp)
      pd == ExtendedToFloat(F, rd)
      dc == Decode(F, pd)
      nx == Decode(F, SuccBits(pd))
      inDomain == CmpDV(val, <<1>>, EMax(F) + 1) < 0
  IN /\ packed = RN(F, val)
     /\ Judge(F, packed, val) = "ok"
     /\ ~rn.dbg /\ ~rd.dbg
     /\ inDomain => /\ dc.class \in {"zero", "subnormal", "normal"}
                    /\ (dc.class # "zero" => CmpDV(val, dc.m, dc.e) >= 0)
                    /\ (nx.class # "inf" => CmpDV(val, nx.m, nx.e) < 0)

Init == /\ f \in 1..2 /\ hi \in {x \in 2048..4095 : x % HiStep \in {0, HiStep - 1}} /\ lowpat \in 0..5 /\ phase = "new"
        /\ e \in ELo..600 /\ e <= EHi(Fmts[f])
Next == phase = "new" /\ phase' = "done" /\ UNCHANGED <<f, hi, lowpat, e>>
        /\ Assert(Holds(Fmts[f]), <<"round differs from nearest / largest-below", f, hi, lowpat, e>>)
Spec == Init /\ [][Next]_vars
TypeOK == phase \in {"new", "done"}
=============================================================================
