------------------------------ MODULE MC_Parse ------------------------------
(***************************************************************************)
(* Design-level model checking of the whole parse pipeline on a small       *)
(* float format: every finite float's upper midpoint (all of them when      *)
(* Stride = 1) in several decimal variants and input forms is pushed        *)
(* through MinLex -- with both moderate-path algorithms -- and the result   *)
(* must be the correctly rounded value (IEEE!Judge), the two algorithms     *)
(* must agree, no debug assertion may fire and the big integers must fit    *)
(* the 62-limb stack capacity.  Also exhaustive: all decimal inputs with    *)
(* up to MaxShortDigits digits and every exponent in a window.              *)
(***************************************************************************)
EXTENDS MinLex, Json

CONSTANTS FmtName, Stride, Offset, MaxShort, PrintEvery

Fm == IF FmtName = "F10" THEN F10 ELSE BF16
MaxFinite == ToInt(InfBits(Fm)) - 1        \* bit patterns 0..MaxFinite are the finite non-negative floats

Variants == {"exact", "up", "down", "far1", "nines", "zeros", "t19", "t19up", "float"}
Forms == {"int", "frac", "sci"}

VARIABLES kind, b, var, form, pc, ml, res
vars == <<kind, b, var, form, pc, ml, res>>

\* ---- inputs built inside the specification
Zeros(n) == [k \in 1..n |-> 0]
Nines(n) == [k \in 1..n |-> 9]

\* decimal (digit sequence, exponent) of the variant of float b's upper midpoint
DecOfVariant(bb, v) ==
  LET mid == Midpoint(Fm, FromInt(bb))
      d == ExactDecimal(mid.M, mid.k)
      N == FromDigits(d.ds)
  IN CASE v = "exact" -> [ds |-> d.ds, e |-> d.e]
       [] v = "up"    -> [ds |-> ToDigits(Add(N, <<1>>)), e |-> d.e]
       [] v = "down"  -> [ds |-> ToDigits(Sub(N, <<1>>)), e |-> d.e]
       [] v = "far1"  -> [ds |-> d.ds \o Zeros(30) \o <<1>>, e |-> d.e - 31]
       [] v = "zeros" -> [ds |-> d.ds \o Zeros(25), e |-> d.e - 25]
       [] v = "nines" -> [ds |-> ToDigits(Sub(N, <<1>>)) \o Nines(40), e |-> d.e - 40]
       [] v = "t19"   -> IF Len(d.ds) > 19 THEN [ds |-> SubSeq(d.ds, 1, 19), e |-> d.e + Len(d.ds) - 19] ELSE [ds |-> d.ds, e |-> d.e]
       [] v = "t19up" -> IF Len(d.ds) > 19
                         THEN [ds |-> ToDigits(Add(FromDigits(SubSeq(d.ds, 1, 19)), <<1>>)), e |-> d.e + Len(d.ds) - 19]
                         ELSE [ds |-> d.ds, e |-> d.e]
       [] v = "float" -> LET dc == Decode(Fm, FromInt(bb)) x == ExactDecimal(dc.m, dc.e) IN [ds |-> x.ds, e |-> x.e]

\* (int, frac, exp) for a digit sequence and exponent
FormOf(dec, f) ==
  IF dec.ds = <<>> THEN [int |-> <<>>, frac |-> <<>>, exp |-> dec.e]
  ELSE CASE f = "int"  -> [int |-> Lit(dec.ds), frac |-> <<>>, exp |-> dec.e]
         [] f = "frac" -> [int |-> <<>>, frac |-> Lit(<<0, 0>> \o dec.ds), exp |-> dec.e + Len(dec.ds) + 2]
         [] f = "sci"  -> [int |-> Lit(SubSeq(dec.ds, 1, 1)), frac |-> Lit(SubSeq(dec.ds, 2, Len(dec.ds))),
                           exp |-> dec.e + Len(dec.ds) - 1]

\* short inputs: b encodes (digits value, exponent index)
ShortExpLo == Consts(Fm).small10 - 3
ShortExpN == Consts(Fm).large10 + 3 - ShortExpLo + 1
ShortDec(bb) ==
  LET dv == bb \div ShortExpN   ex == ShortExpLo + (bb % ShortExpN)
  IN [ds |-> IF dv = 0 THEN <<>> ELSE ToDigits(FromInt(dv)), e |-> ex]

Input == IF kind = "mid" THEN FormOf(DecOfVariant(b, var), form) ELSE FormOf(ShortDec(b), form)

Init ==
  /\ pc = "start" /\ ml = <<MLInit, MLInit>> /\ res = "none"
  /\ \/ /\ kind = "mid"
        /\ b \in {x \in 0..MaxFinite : x % Stride = Offset}
        /\ var \in Variants /\ form \in Forms
     \/ /\ kind = "short"
        /\ b \in 0..((MaxShort + 1) * ShortExpN - 1)
        /\ var = "exact" /\ form \in Forms

Stage(s, compact) ==
  LET inp == Input IN
  IF s.pc = "start" THEN MLParseNum(s, inp.int, inp.frac, inp.exp)
  ELSE IF s.pc = "number" THEN (IF MLFastEnabled(Fm, s) THEN MLFast(Fm, s) ELSE MLModerate(Fm, compact, s))
  ELSE IF s.pc = "declined" THEN MLSlow(Fm, s, inp.int, inp.frac)
  ELSE s

\* the pipeline actions, named after the stage that the Eisel-Lemire variant is in
ParseNum == /\ pc = "start" /\ ml' = [k \in 1..2 |-> Stage(ml[k], k = 2)] /\ pc' = "number"
            /\ UNCHANGED <<kind, b, var, form, res>>
FastOrModerate == /\ pc = "number" /\ ml' = [k \in 1..2 |-> Stage(ml[k], k = 2)] /\ pc' = "slow"
                  /\ UNCHANGED <<kind, b, var, form, res>>
SlowIfDeclined == /\ pc = "slow" /\ ml' = [k \in 1..2 |-> Stage(ml[k], k = 2)] /\ pc' = "judge"
                  /\ UNCHANGED <<kind, b, var, form, res>>

Verdict ==
  LET inp == Input
      dv == DecVal(inp.int, inp.frac, inp.exp)
  IN IF Judge(Fm, ml[1].bits, dv) # "ok" THEN "lemire_wrong"
     ELSE IF Judge(Fm, ml[2].bits, dv) # "ok" THEN "bellerophon_wrong"
     ELSE IF ml[1].bits # ml[2].bits THEN "configs_disagree"
     ELSE IF ml[1].dbg \/ ml[2].dbg THEN "debug_assertion"
     ELSE IF ml[1].limbs > BigintLimbs \/ ml[2].limbs > BigintLimbs THEN "capacity"
     ELSE IF kind = "mid" /\ var = "float" /\ ml[1].bits # FromInt(b) THEN "roundtrip"
     ELSE "ok"

JudgeStep ==
  /\ pc = "judge"
  /\ res' = Verdict
  /\ pc' = "done"
  /\ (res' # "ok" \/ b % PrintEvery = 0) =>
        PrintT("VP|" \o ToJson([kind |-> kind, b |-> b, var |-> var, form |-> form, verdict |-> res',
                                 l |-> ml[1].tr, c |-> ml[2].tr, limbs |-> Max2(ml[1].limbs, ml[2].limbs)]))
  /\ UNCHANGED <<kind, b, var, form, ml>>

Next == ParseNum \/ FastOrModerate \/ SlowIfDeclined \/ JudgeStep
Spec == Init /\ [][Next]_vars

\* the properties, phrased on model state
Correct01 == res \in {"none", "ok"}
=============================================================================
