CONSTANTS
  LB = 15
  HiStep = 32
SPECIFICATION Spec
INVARIANT TypeOK
CHECK_DEADLOCK FALSE
