------------------------------ MODULE MC_IEEE ------------------------------
(* The oracle checked against itself: for a small format, every decimal     *)
(* D * 10^E with D <= MaxD and E in ERange has exactly one correctly        *)
(* rounded bit pattern, and it is the one the constructive RN produces.     *)
(* Also: per-format derived constants against their closed forms, and       *)
(* Decode/Encode inverse to each other on every pattern.                    *)
EXTENDS IEEE

CONSTANTS FmtName, MaxD, ENeg, EMaxC, AllPatterns
EMin == 0 - ENeg

Fm == CASE FmtName = "F8" -> F8 [] FmtName = "F10" -> F10 [] FmtName = "BF16" -> BF16
        [] FmtName = "F16" -> F16 [] FmtName = "F32" -> F32 [] FmtName = "F64" -> F64

VARIABLES d, e, phase
vars == <<d, e, phase>>

NPat == 2^(Fm.mbits + Fm.ebits)            \* non-negative patterns incl. inf/nan (small formats only)

Dv == DecOfWQ(FromInt(d), e)
Rn == RN(Fm, Dv)
RnInt == ToInt(Rn)

Unique ==
  IF AllPatterns
  THEN \A b \in 0..(NPat - 1) : Correct(Fm, FromInt(b), Dv) <=> (b = RnInt)
  ELSE /\ Correct(Fm, Rn, Dv)
       /\ (RnInt > 0 => ~Correct(Fm, FromInt(RnInt - 1), Dv))
       /\ ~Correct(Fm, FromInt(RnInt + 1), Dv)

\* value of the decimal as seen through segments must agree with DecOfWQ
ViaSegs ==
  LET ds == IF d = 0 THEN <<0>> ELSE ToDigits(FromInt(d))
      \* all splits of the digit string into integer / fraction
  IN \A k \in 0..Len(ds) :
       LET int == SubSeq(ds, 1, k)  fr == SubSeq(ds, k + 1, Len(ds))
           dv2 == DecVal(Lit(int), Lit(fr), e + Len(fr))
       IN Judge(Fm, Rn, dv2) = "ok"

CodecOK ==
  \A b \in 0..(NPat - 1) :
     LET bits == FromInt(b)  dc == Decode(Fm, bits) IN
     /\ dc.class \in {"zero", "subnormal", "normal", "inf", "nan"}
     /\ Encode(Fm, ExpField(Fm, bits), Frac(Fm, bits)) = bits
     /\ (dc.class = "normal" => BitLen(dc.m) = Prec(Fm))
     /\ (dc.class = "subnormal" => BitLen(dc.m) <= Fm.mbits /\ dc.e = ETiny(Fm))

Init == d \in 0..MaxD /\ e \in EMin..EMaxC /\ phase = "new"
Next == /\ phase = "new" /\ phase' = "done" /\ UNCHANGED <<d, e>>
        /\ Assert(Unique, <<"not unique / RN wrong", d, e, Rn>>)
        /\ Assert(d > 99 \/ ViaSegs, <<"segments disagree", d, e>>)
        /\ Assert(d # 0 \/ e # EMin \/ CodecOK, "codec")
Spec == Init /\ [][Next]_vars
TypeOK == phase \in {"new", "done"}
=============================================================================
