CONSTANTS
  Threads <- ThreadsMemoDef
  Inputs <- InputsMemoDef
  CAP = 2
  Garbage <- GarbageDef
  SharedScratch = FALSE
  LenBeforeWrite = FALSE
  Memo = "global"
SPECIFICATION Spec
INVARIANT Pure
INVARIANT PeekPure
INVARIANT LenBounded
CHECK_DEADLOCK FALSE
