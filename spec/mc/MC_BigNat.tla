----------------------------- MODULE MC_BigNat -----------------------------
(* Cross-check of every BigNat operator against TLC's native integers.     *)
(* State = a pair of natives (a, b) and a small parameter n; one action    *)
(* per operator family so that -coverage shows each was exercised.         *)
EXTENDS BigNat, FiniteSets

CONSTANTS MaxA, MaxB, MaxN

VARIABLES a, b, n, phase
vars == <<a, b, n, phase>>

A == FromInt(a)
Bb == FromInt(b)

Sign(v) == IF v < 0 THEN -1 ELSE IF v > 0 THEN 1 ELSE 0

CheckRepr ==
  /\ IsBigNat(A) /\ ToInt(A) = a
  /\ BitLen(A) = (CHOOSE k \in 0..31 : (a < 2^k) /\ (k = 0 \/ a >= 2^(k-1)))
  /\ IsOdd(A) = (a % 2 = 1)
  /\ (a > 0 => TrailingZeros(A) = (CHOOSE k \in 0..31 : a % 2^k = 0 /\ (a \div 2^k) % 2 = 1))

CheckAddSub ==
  /\ ToInt(Add(A, Bb)) = a + b /\ IsBigNat(Add(A, Bb))
  /\ (a >= b => (ToInt(Sub(A, Bb)) = a - b /\ IsBigNat(Sub(A, Bb))))
  /\ Cmp(A, Bb) = Sign(a - b)
  /\ Lt(A, Bb) = (a < b) /\ Le(A, Bb) = (a <= b) /\ Gt(A, Bb) = (a > b) /\ Ge(A, Bb) = (a >= b)

CheckMul ==
  /\ ToInt(Mul(A, Bb)) = a * b /\ IsBigNat(Mul(A, Bb))
  /\ ToInt(MulSmall(A, b)) = a * b
  /\ ToInt(MulSmallAdd(A, b, n)) = a * b + n

CheckShift ==
  /\ ToInt(Shl(A, n)) = a * 2^n /\ IsBigNat(Shl(A, n))
  /\ ToInt(Shr(A, n)) = a \div 2^n /\ IsBigNat(Shr(A, n))
  /\ ToInt(ModPow2(A, n)) = a % 2^n /\ IsBigNat(ModPow2(A, n))
  /\ Bit(A, n) = (a \div 2^n) % 2
  /\ ToInt(Pow2(n)) = 2^n

CheckDiv ==
  /\ b > 0 => LET dm == DivMod(A, Bb) ds == DivModSmall(A, b) IN
       /\ ToInt(dm[1]) = a \div b /\ ToInt(dm[2]) = a % b
       /\ IsBigNat(dm[1]) /\ IsBigNat(dm[2])
       /\ ToInt(ds[1]) = a \div b /\ ds[2] = a % b

NatDigits(v) == \* native -> digit sequence, v > 0
  LET k == CHOOSE k \in 1..10 : v < 10^k /\ (k = 1 \/ v >= 10^(k-1))
  IN [i \in 1..k |-> (v \div 10^(k-i)) % 10]

CheckDigits ==
  /\ a > 0 => (ToDigits(A) = NatDigits(a) /\ FromDigits(NatDigits(a)) = A)
  /\ ToDigits(<<>>) = <<>>
  /\ FromDigits(<<0, 0>> \o (IF a > 0 THEN NatDigits(a) ELSE <<>>)) = A

CheckPow ==
  /\ n <= 4 => ToInt(Pow5Mul(A, n)) = a * 5^n
  /\ n <= 3 => ToInt(Pow10Mul(A, n)) = a * 10^n

CheckScaled ==
  \A ea \in 0..3, eb \in 0..3 : CmpScaled(A, ea - 1, Bb, eb - 2) = Sign(a * 2^(ea+1) - b * 2^eb)

Init == a \in 0..MaxA /\ b \in 0..MaxB /\ n \in 0..MaxN /\ phase = "new"
Next ==
  \/ /\ phase = "new" /\ phase' = "done" /\ UNCHANGED <<a, b, n>>
     /\ Assert(CheckRepr, <<"repr", a>>)
     /\ Assert(CheckAddSub, <<"addsub", a, b>>)
     /\ Assert(CheckMul, <<"mul", a, b, n>>)
     /\ Assert(CheckShift, <<"shift", a, n>>)
     /\ Assert(CheckDiv, <<"div", a, b>>)
     /\ Assert(CheckDigits, <<"digits", a>>)
     /\ Assert(CheckPow, <<"pow", a, n>>)
     /\ Assert(CheckScaled, <<"scaled", a, b>>)
Spec == Init /\ [][Next]_vars
AllDone == phase \in {"new", "done"}
=============================================================================
