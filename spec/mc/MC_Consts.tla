----------------------------- MODULE MC_Consts -----------------------------
EXTENDS Consts
VARIABLES f, phase
Fmts == <<F64, F32, BF16, F10>>
Holds(F) ==
  LET c == Consts(F) IN
  /\ c.maxfast = DefMaxFast(F) /\ c.maxdisg = DefMaxDisg(F)
  /\ c.tiemin = DefTieMin(F) /\ c.tiemax = DefTieMax(F)
  /\ c.large10 = DefLarge10(F)
  /\ c.small10 <= DefSmall10(F)            \* sound short-circuit (the code's value may be more conservative)
  /\ c.maxdigits >= DefMaxDigits(F)        \* at least the longest rounding boundary
Init == f \in 1..4 /\ phase = "new"
Next == phase = "new" /\ phase' = "done" /\ UNCHANGED f
        /\ Assert(Holds(Fmts[f]), <<"constant differs from its definition", f,
                  DefMaxFast(Fmts[f]), DefMaxDisg(Fmts[f]), DefTieMin(Fmts[f]), DefTieMax(Fmts[f]),
                  DefLarge10(Fmts[f]), DefSmall10(Fmts[f]), DefMaxDigits(Fmts[f])>>)
Spec == Init /\ [][Next]_<<f, phase>>
TypeOK == phase \in {"new", "done"}
=============================================================================
