CONSTANTS
  Threads <- ThreadsDef
  Inputs <- InputsDef
  CAP = 2
  Garbage <- GarbageDef
  SharedScratch = FALSE
  LenBeforeWrite = TRUE
  Memo = "none"
SPECIFICATION Spec
INVARIANT Pure
INVARIANT PeekPure
INVARIANT LenBounded
CHECK_DEADLOCK FALSE
