CONSTANTS
  LB = 15
  LBITS = 2
  CAP = 3
  Heap = FALSE
SPECIFICATION Spec
INVARIANT LenBounded
INVARIANT OrderingMeans
CHECK_DEADLOCK FALSE
