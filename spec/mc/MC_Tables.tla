----------------------------- MODULE MC_Tables -----------------------------
(* Every datum of TablesData against its definition; one state per entry.   *)
EXTENDS Tables

VARIABLES kind, k, phase
vars == <<kind, k, phase>>

Init ==
  /\ phase = "new"
  /\ \/ kind = "p5" /\ k \in P5Min..P5Max
     \/ kind = "bsmall" /\ k \in 0..9
     \/ kind = "blarge" /\ k \in 0..65
     \/ kind = "log2" /\ k \in -350..310
     \/ kind = "lemirepow" /\ k \in -342..308
     \/ kind = "f64pow" /\ k \in 0..22
     \/ kind = "f32pow" /\ k \in 0..10
     \/ kind = "ints" /\ k \in 0..27

\* lemire.rs `power(q)` = floor(log2(10^q)) + 63 on the table range
LemirePower(q) == ((q * 217706) \div 65536) + 63

Holds ==
  CASE kind = "p5" -> P5Holds(k, P5(k))
    [] kind = "bsmall" -> Top64Holds(k, BSmall(k)) /\ BitLen(BSmallInt(k)) <= 64
    [] kind = "blarge" -> Top64Holds(10 * k - BBias, BLarge(k))
    [] kind = "log2" -> Log2Holds(k)
    [] kind = "lemirepow" -> Log2Holds(k) /\ LemirePower(k) = Log2Pow10(k) + 63
    [] kind = "f64pow" -> Pow10Exact(F64, k) /\ Judge(F64, Pow10Float(F64, k), DecOfWQ(<<1>>, k)) = "ok"
                          /\ (k = 22 => ~Pow10Exact(F64, 23))
    [] kind = "f32pow" -> Pow10Exact(F32, k) /\ Judge(F32, Pow10Float(F32, k), DecOfWQ(<<1>>, k)) = "ok"
                          /\ (k = 10 => ~Pow10Exact(F32, 11))
    [] kind = "ints" -> /\ BitLen(SmallIntPow5(k)) <= 64
                        /\ (k <= 19 => BitLen(SmallIntPow10(k)) <= 64)
                        /\ (k = 27 => BitLen(Pow5(28)) > 64)
                        /\ (k = 19 => BitLen(Pow10(20)) > 64)
                        /\ BitLen(LargePow5) = 314

Next == phase = "new" /\ phase' = "done" /\ UNCHANGED <<kind, k>>
        /\ Assert(Holds, <<"table datum does not match its definition", kind, k>>)
Spec == Init /\ [][Next]_vars
TypeOK == phase \in {"new", "done"}
=============================================================================
