CONSTANTS
  LB = 15
  FmtName = "BF16"
  Variant = "original"
  MaxW = 12
  Stride = 512
SPECIFICATION Spec
INVARIANT ContractHolds
CHECK_DEADLOCK FALSE
