CONSTANTS
  LB = 15
  LBITS = 64
  CAP = 62
  Heap = FALSE
  SmallStep = 27
  LargeStep = 135
  NoLargeStep = FALSE
  FmtName = "BF16"
  Stride = 64
SPECIFICATION Spec
INVARIANT Refines
CHECK_DEADLOCK FALSE
