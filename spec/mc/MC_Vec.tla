------------------------------- MODULE MC_Vec -------------------------------
(***************************************************************************)
(* The vector model explored exhaustively: two vectors a, b over LBITS-bit  *)
(* limbs with capacity CAP, every operation of the safe API with every      *)
(* argument from a finite set, breadth first.                                *)
(* Invariants (C13): length never exceeds the capacity; a failed push /      *)
(* extend / resize leaves the contents unchanged; small arithmetic means     *)
(* what it means on naturals and fails exactly on overflow of the capacity;  *)
(* equality and ordering agree with numeric comparison on normalised         *)
(* vectors; hi64 is the top limb-width bits plus sticky.                     *)
(***************************************************************************)
EXTENDS Vec, FiniteSets

VARIABLES a, b
vars == <<a, b>>

Limbs == {FromInt(x) : x \in 0..(2^LBITS - 1)}
Slices == {<<>>} \cup {<<x>> : x \in Limbs} \cup {<<x, y>> : x \in {<<>>, <<1>>, LimbMax}, y \in {<<>>, LimbMax}}
           \cup {<<LimbMax, <<>>, <<1>>>>, <<<<1>>, <<1>>, <<1>>, <<1>>>>}
Scalars == Limbs

\* ------------------------------------------------- what every step must satisfy
FailureLeavesUnchanged(op, pre, out) ==
  (op \in {"push", "extend", "resize", "from"} /\ out.r = "none") => (out.v = (IF op = "from" THEN <<>> ELSE pre))

FailsOnlyWhenFull(op, pre, arg, n, out) ==
  /\ (op = "push" => (out.r = "none" <=> (~Heap /\ Len(pre) = CAP)))
  /\ (op = "extend" => (out.r = "none" <=> (~Heap /\ Len(pre) + Len(arg) > CAP)))
  /\ (op = "resize" => (out.r = "none" <=> (~Heap /\ n > CAP)))
  /\ (op = "from" => (out.r = "none" <=> (~Heap /\ Len(arg) > CAP)))

SequenceSemantics(op, pre, arg, n, out) ==
  /\ (op = "push" /\ out.r = "ok" => out.v = Append(pre, arg))
  /\ (op = "pop" /\ out.r = "some" => pre = Append(out.v, arg))
  /\ (op = "pop" /\ out.r = "none" => pre = <<>> /\ out.v = <<>>)
  /\ (op = "extend" /\ out.r = "ok" => out.v = pre \o arg)
  /\ (op = "from" /\ out.r = "ok" => out.v = arg)
  /\ (op = "resize" /\ out.r = "ok" =>
        /\ Len(out.v) = n
        /\ \A k \in 1..n : out.v[k] = (IF k <= Len(pre) THEN pre[k] ELSE arg))
  /\ (op = "normalize" => Normalized(out.v) /\ ValueOfVec(out.v) = ValueOfVec(pre)
                          /\ \E k \in 0..Len(pre) : out.v = SubSeq(pre, 1, k))
  /\ (op = "from_u64" => Normalized(out.v) /\ ValueOfVec(out.v) = arg)

ArithmeticMeans(op, pre, arg, out) ==
  /\ (op = "add_small" => SmallAddMeans(pre, arg, out) /\ SmallAddFails(pre, arg, out))
  /\ (op = "mul_small" => SmallMulMeans(pre, arg, out) /\ SmallMulFails(pre, arg, out))

StepOK(op, pre, arg, n, out) ==
  /\ IsVec(out.v)
  /\ FailureLeavesUnchanged(op, pre, out)
  /\ FailsOnlyWhenFull(op, pre, arg, n, out)
  /\ SequenceSemantics(op, pre, arg, n, out)
  /\ ArithmeticMeans(op, pre, arg, out)

Init == a = <<>> /\ b = <<>>

Do(op, arg, n, out) ==
  /\ a' = out.v
  /\ Assert(StepOK(op, a, arg, n, out), <<"step violates the vector contract", op, a, arg, n, out>>)
  /\ UNCHANGED b

New       == Do("new", <<>>, 0, [v |-> <<>>, r |-> "ok"])
Push      == \E x \in Limbs : Do("push", x, 0, TryPush(a, x))
PopA      == LET p == Pop(a) IN Do("pop", p.x, 0, [v |-> p.v, r |-> p.r])
Extend    == \E s \in Slices : Do("extend", s, 0, TryExtend(a, s))
Resize    == \E n \in 0..(CAP + 1), x \in {<<>>, LimbMax} : Do("resize", x, n, TryResize(a, n, x))
From      == \E s \in Slices : Do("from", s, 0, TryFrom(s))
Norm_     == Do("normalize", <<>>, 0, [v |-> Normalize(a), r |-> "ok"])
OpAddSmall == \E y \in Scalars : Do("add_small", y, 0, SmallAdd(a, y))
OpMulSmall == \E y \in Scalars : Do("mul_small", y, 0, SmallMul(a, y))
FromLimb  == \E x \in Limbs : Do("from_u64", x, 0, [v |-> FromU64(x), r |-> "ok"])
Clone     == b' = a /\ UNCHANGED a
Swap      == a' = b /\ b' = a

Next == New \/ Push \/ PopA \/ Extend \/ Resize \/ From \/ Norm_ \/ OpAddSmall \/ OpMulSmall \/ FromLimb \/ Clone \/ Swap
Spec == Init /\ [][Next]_vars

\* ---------------------------------------------------------------- invariants
LenBounded == IsVec(a) /\ IsVec(b)
\* state constraint for the heap back-end (it never refuses, so lengths are unbounded)
Bounded == Len(a) <= CAP + 1 /\ Len(b) <= CAP + 1
OrderingMeans == CompareMeans(a, b) /\ CompareMeans(b, a) /\ Hi64Means(a)
=============================================================================
