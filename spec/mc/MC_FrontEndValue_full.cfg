CONSTANTS
  LB = 15
  MaxLen = 6
SPECIFICATION Spec
INVARIANT TypeOK
CHECK_DEADLOCK FALSE
