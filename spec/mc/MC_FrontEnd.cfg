CONSTANTS
  LB = 15
  MaxLen = 4
SPECIFICATION Spec
INVARIANT TypeOK
CHECK_DEADLOCK FALSE
