CONSTANTS
  LB = 15
  FmtName = "BF16"
  Variant = "lemire"
  MaxW = 4095
  Stride = 1
SPECIFICATION Spec
INVARIANT ContractHolds
CHECK_DEADLOCK FALSE
