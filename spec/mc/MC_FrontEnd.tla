---------------------------- MODULE MC_FrontEnd ----------------------------
(* C19 at the design level: the scanner state machine equals the declarative *)
(* longest-prefix definition on EVERY string up to MaxLen over a 16-symbol    *)
(* alphabet chosen to reach every branch: + - 0 1 9 . e E n a i f t y x NUL.  *)
(* Both front-end variants (with / without the special literals).             *)
EXTENDS FrontEnd, FiniteSets

CONSTANT MaxLen

Alphabet == {43, 45, 48, 49, 57, 46, 101, 69, 110, 97, 105, 102, 116, 121, 120, 0}

VARIABLES s, phase
vars == <<s, phase>>

Agree(str) ==
  /\ Scan(str, TRUE) = Declarative(str, TRUE)
  /\ Scan(str, FALSE) = Declarative(str, FALSE)
  \* the suffix is a suffix, the consumed prefix re-scans to itself with nothing left
  /\ LET r == Scan(str, FALSE) IN
       /\ r.rest \in 0..Len(str)
       /\ Scan(SubSeq(str, 1, Len(str) - r.rest), FALSE).rest = 0

Init == s \in UNION {[1..n -> Alphabet] : n \in 0..MaxLen} /\ phase = "new"
Next == phase = "new" /\ phase' = "done" /\ UNCHANGED s
        /\ Assert(Agree(s), <<"scanner differs from the declarative definition", s, Scan(s, TRUE), Declarative(s, TRUE)>>)
Spec == Init /\ [][Next]_vars
TypeOK == phase \in {"new", "done"}
=============================================================================
