CONSTANTS
  LB = 3
  MaxA = 700
  MaxB = 70
  MaxN = 6
SPECIFICATION Spec
INVARIANT AllDone
CHECK_DEADLOCK FALSE
