----------------------------- MODULE MC_Fields -----------------------------
(* C17 at the design level: on ALL bit patterns (sign included) of the       *)
(* 8-bit and 16-bit formats, decode / encode / b / b+h satisfy their         *)
(* defining equations:  m * 2^e = |value|, fields round-trip, the packed     *)
(* (exponent field, fraction) pair has exactly those fields, and the OR      *)
(* packing of extended_to_float agrees with the sum for in-range fields.     *)
EXTENDS Rounding

VARIABLES f, bits, phase
Fmts == <<F8, F16, BF16, F10>>
NAll(F) == 2^(F.mbits + F.ebits + 1)

Holds(F, b) ==
  LET x == FromInt(b)
      mag == ModPow2(x, F.mbits + F.ebits)
      ef == ExpField(F, mag)  fr == Frac(F, mag)
      dc == Decode(F, mag)
  IN /\ Encode(F, ef, fr) = mag
     /\ SignSet(F, x) = (b >= 2^(F.mbits + F.ebits))
     /\ (dc.class = "normal" => dc.m = Add(fr, Pow2(F.mbits)) /\ dc.e = ef - Bias(F) - F.mbits /\ ef \in 1..(EMaxField(F) - 1))
     /\ (dc.class \in {"subnormal", "zero"} => dc.m = fr /\ dc.e = ETiny(F) /\ ef = 0)
     /\ (dc.class \in {"inf", "nan"} => ef = EMaxField(F))
     \* the decoded value re-encodes to the same pattern through the constructive rounding (exactly representable)
     /\ (dc.class \in {"normal", "subnormal"} => RN(F, BinVal(dc.m, dc.e)) = mag /\ Judge(F, mag, BinVal(dc.m, dc.e)) = "ok")
     \* extended_to_float: OR-packing equals field packing; a promoted subnormal (mant = 2^mbits, exp = 1) is the least normal
     /\ ExtendedToFloat(F, [mant |-> fr, exp |-> ef]) = mag
     /\ ExtendedToFloat(F, [mant |-> Pow2(F.mbits), exp |-> 1]) = Encode(F, 1, <<>>)
     \* b and b+h
     /\ (dc.class \in {"normal", "subnormal", "zero"} =>
            LET bb == BOf(F, mag)  bh == BHOf(F, mag) IN
            /\ bb.mant = dc.m /\ bb.exp = dc.e
            /\ bh.mant = Add(Shl(dc.m, 1), <<1>>) /\ bh.exp = dc.e - 1
            \* b+h is the midpoint to the successor
            /\ LET mid == Midpoint(F, mag) IN CmpScaled(bh.mant, bh.exp, mid.M, mid.k) = 0)

Init == f \in 1..4 /\ bits \in 0..65535 /\ bits < NAll(Fmts[f]) /\ phase = "new"
Next == phase = "new" /\ phase' = "done" /\ UNCHANGED <<f, bits>>
        /\ Assert(Holds(Fmts[f], bits), <<"field equations fail", f, bits>>)
Spec == Init /\ [][Next]_<<f, bits, phase>>
TypeOK == phase \in {"new", "done"}
=============================================================================
