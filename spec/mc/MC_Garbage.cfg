CONSTANTS
  LB = 15
SPECIFICATION Spec
INVARIANT TypeOK
CHECK_DEADLOCK FALSE
