------------------------- MODULE MC_FrontEndValue -------------------------
(***************************************************************************)
(* C19 end to end at the design level: the scanner state machine composed   *)
(* with the parse pipeline model (MinLex, both moderate algorithms) for a    *)
(* small float format returns, for EVERY string up to MaxLen over the        *)
(* alphabet  + - 0 1 5 9 . e , a correctly rounded, correctly signed value   *)
(* of the longest numeric prefix (trimming of zeros included).               *)
(***************************************************************************)
EXTENDS FrontEnd, MinLex, FiniteSets

CONSTANT MaxLen

Fm == BF16
Alphabet == {43, 45, 48, 49, 53, 57, 46, 101}

VARIABLES s, phase
vars == <<s, phase>>

\* what the front-end does after scanning: trim, call the library, apply the sign
FrontEndBits(r, compact) ==
  LET ml == MLRun(Fm, compact, Lit(LTrimZeros(r.int)), Lit(RTrimZeros(r.frac)), r.exp)
  IN IF r.neg THEN Add(ml.bits, SignBit(Fm)) ELSE ml.bits

Holds(str) ==
  LET r == Scan(str, FALSE)
      d == Declarative(str, FALSE)
  IN /\ r = d
     /\ ResultOK(Fm, d, FrontEndBits(r, FALSE))
     /\ ResultOK(Fm, d, FrontEndBits(r, TRUE))

Init == s \in UNION {[1..n -> Alphabet] : n \in 0..MaxLen} /\ phase = "new"
Next == phase = "new" /\ phase' = "done" /\ UNCHANGED s
        /\ Assert(Holds(s), <<"front-end + pipeline model returns a wrong value", s>>)
Spec == Init /\ [][Next]_vars
TypeOK == phase \in {"new", "done"}
=============================================================================
