CONSTANTS
  LB = 15
  FmtName = "F10"
  Stride = 1
  Offset = 0
  MaxShort = 49
  PrintEvery = 7
SPECIFICATION Spec
INVARIANT Correct01
CHECK_DEADLOCK FALSE
