CONSTANTS
  LB = 15
  HiStep = 1
SPECIFICATION Spec
INVARIANT TypeOK
CHECK_DEADLOCK FALSE
