---------------------------- MODULE MC_SlowLimbs ----------------------------
(* Refinement check: the limb-level slow path (SlowLimbs.tla, 64-bit limbs,   *)
(* capacity 62, stepped powers 27 / 135) returns exactly what the value-level *)
(* Slow.tla returns, never refuses and never needs more than 62 limbs, on     *)
(* every input of a small float format that the Eisel-Lemire stage declines   *)
(* (all midpoints of the format in several decimal variants and forms).       *)
EXTENDS SlowLimbs, Number, Lemire, Json

CONSTANTS FmtName, Stride

Fm == IF FmtName = "F10" THEN F10 ELSE BF16
MaxFinite == ToInt(InfBits(Fm)) - 1
Variants == {"exact", "up", "down", "far1", "nines", "zeros"}
Forms == {"int", "frac", "sci"}

VARIABLES b, var, form, phase, res
vars == <<b, var, form, phase, res>>

Zeros(n) == [k \in 1..n |-> 0]
Nines(n) == [k \in 1..n |-> 9]
DecOfVariant(bb, v) ==
  LET mid == Midpoint(Fm, FromInt(bb))
      d == ExactDecimal(mid.M, mid.k)
      N == FromDigits(d.ds)
  IN CASE v = "exact" -> [ds |-> d.ds, e |-> d.e]
       [] v = "up"    -> [ds |-> ToDigits(Add(N, <<1>>)), e |-> d.e]
       [] v = "down"  -> [ds |-> ToDigits(Sub(N, <<1>>)), e |-> d.e]
       [] v = "far1"  -> [ds |-> d.ds \o Zeros(30) \o <<1>>, e |-> d.e - 31]
       [] v = "zeros" -> [ds |-> d.ds \o Zeros(25), e |-> d.e - 25]
       [] v = "nines" -> [ds |-> ToDigits(Sub(N, <<1>>)) \o Nines(40), e |-> d.e - 40]
FormOf(dec, f) ==
  IF dec.ds = <<>> THEN [int |-> <<>>, frac |-> <<>>, exp |-> dec.e]
  ELSE CASE f = "int"  -> [int |-> Lit(dec.ds), frac |-> <<>>, exp |-> dec.e]
         [] f = "frac" -> [int |-> <<>>, frac |-> Lit(<<0, 0>> \o dec.ds), exp |-> dec.e + Len(dec.ds) + 2]
         [] f = "sci"  -> [int |-> Lit(SubSeq(dec.ds, 1, 1)), frac |-> Lit(SubSeq(dec.ds, 2, Len(dec.ds))),
                           exp |-> dec.e + Len(dec.ds) - 1]

Init == b \in {x \in 0..MaxFinite : x % Stride = 0} /\ var \in Variants /\ form \in Forms /\ phase = "new" /\ res = "none"

Compare ==
  LET inp == FormOf(DecOfVariant(b, var), form)
      n == ParseNumber(inp.int, inp.frac, inp.exp)
      num == [mant |-> n.mant, exp |-> n.exp, many |-> n.many]
  IN IF TryFastPath(Fm, num).some THEN "fast"
     ELSE LET m == LemirePath(Fm, num) IN
          IF m.valid THEN "moderate"
          ELSE LET est == [mant |-> m.mant, exp |-> m.exp]
                   a == SlowPath(Fm, num, est, inp.int, inp.frac)
                   l == SlowPathLimbs(Fm, num, est, inp.int, inp.frac)
               IN IF l.r # "ok" THEN "limb-level refused"
                  ELSE IF l.limbs > CAP THEN "more than 62 limbs"
                  ELSE IF l.mant # a.mant \/ l.exp # a.exp THEN "limb level differs from value level"
                  ELSE "slow:refines"

Next == /\ phase = "new" /\ phase' = "done" /\ res' = Compare
        /\ ((res' \notin {"fast", "moderate", "slow:refines"} \/ b % (16 * Stride) = 0) =>
               PrintT("VP|" \o ToJson([b |-> b, var |-> var, form |-> form, verdict |-> res'])))
        /\ UNCHANGED <<b, var, form>>
Spec == Init /\ [][Next]_vars
Refines == res \in {"none", "fast", "moderate", "slow:refines"}
=============================================================================
