----------------------------- MODULE MC_Garbage -----------------------------
(***************************************************************************)
(* C08 at the design level.  Every table read the code performs without a   *)
(* bounds check (get_unchecked in pow_fast_path / int_pow_fast_path) and     *)
(* every index it derives from its input is shown to stay inside its table   *)
(* for ALL Number values parse_number can produce from arbitrary bytes --    *)
(* the mantissa is any u64, the exponent any i32, the flag either value --   *)
(* and the digit counters of parse_mantissa are shown independent of the     *)
(* byte values.  Abstract domain: exponent classes x mantissa classes.       *)
(***************************************************************************)
EXTENDS Number, Lemire

VARIABLES f, e, m, many, phase, si, sf
vars == <<f, e, m, many, phase, si, sf>>
Fmts == <<F64, F32>>

Exps == (-400..400) \cup {MinI32, MinI32 + 1, -4097, -4096, -4095, 4095, 4096, 4097, MaxI32 - 1, MaxI32}
Mants == <<<<>>, <<1>>, Pow2(24), Add(Pow2(24), <<1>>), Pow2(53), Add(Pow2(53), <<1>>), Sub(Pow2(64), <<1>>), Pow2(63), Pow10(19)>>

\* table lengths of src/table_small.rs
F64TableLen == 32
F32TableLen == 16
IntPow10Len == 20
IntPow5Len == 28

\* the unchecked reads of try_fast_path, as (table length, index) pairs
UncheckedReads(F, num) ==
  IF ~IsFastPath(F, num) THEN {}
  ELSE LET flen == IF F = F64 THEN F64TableLen ELSE F32TableLen IN
       IF num.exp <= MaxExpFast(F)
       THEN {<<flen, IF num.exp < 0 THEN 0 - num.exp ELSE num.exp>>}
       ELSE {<<IntPow10Len, num.exp - MaxExpFast(F)>>, <<flen, MaxExpFast(F)>>}

\* only exactly representable powers are ever read (entries beyond are 0.0 padding)
ReadsMeaningful(F, num) ==
  \A r \in UncheckedReads(F, num) : r[2] >= 0 /\ r[2] < r[1] /\ (r[1] # IntPow10Len => r[2] <= MaxExpFast(F))

\* parse_mantissa: counter <= 19 (index into the 20-entry table) whatever the bytes are;
\* bigint::pow: the residual exponent is < 27 (28-entry table)
CounterBound == 19 < IntPow10Len /\ 26 < IntPow5Len

\* Eisel-Lemire table index is computed only for q inside the table (checked index otherwise: a clean panic)
LemireIndexOK(F, num) ==
  (num.mant # <<>> /\ num.exp >= Smallest10(F) /\ num.exp <= Largest10(F)) => (num.exp - P5Min) \in 0..(P5Max - P5Min)

\* second family: byte STRINGS (run-structured, byte classes as element values (byte - 48) mod 256) pushed through the
\* parse_number model, then the same obligations on the Number it produces
Classes == {0, 9, 10, 207, 208, 255}          \* '0' '9' ':' 0xFF NUL '/'
RunLens == {1, 19, 20, 21}
Runs == {<<>>} \cup {<<[d |-> <<c>>, n |-> l]>> : c \in Classes, l \in RunLens}
TwoRuns == {<<[d |-> <<c1>>, n |-> l1], [d |-> <<c2>>, n |-> 19]>> : c1 \in Classes, l1 \in RunLens, c2 \in {9, 207, 255}}
StrExps == {MinI32, -400, -23, -22, 0, 22, 37, 38, 400, MaxI32}

Init ==
  /\ phase = "new" /\ f \in 1..2
  /\ \/ /\ e \in Exps /\ m \in 1..Len(Mants) /\ many \in BOOLEAN /\ si = <<>> /\ sf = <<>>
     \/ /\ e \in StrExps /\ m = 0 /\ many = FALSE /\ si \in Runs \cup TwoRuns /\ sf \in Runs

Next == phase = "new" /\ phase' = "done" /\ UNCHANGED <<f, e, m, many, si, sf>>
        /\ LET num == IF m > 0 THEN [mant |-> Mants[m], exp |-> e, many |-> many]
                      ELSE LET n == ParseNumber(si, sf, e) IN [mant |-> n.mant, exp |-> n.exp, many |-> n.many]
           IN Assert(ReadsMeaningful(Fmts[f], num) /\ CounterBound /\ IsU64(num.mant) /\ num.exp >= MinI32 /\ num.exp <= MaxI32
                     /\ LemireIndexOK(Fmts[f], num),
                     <<"unchecked read out of bounds / Number out of its machine types", f, e, m, many, si, sf>>)
Spec == Init /\ [][Next]_vars
TypeOK == phase \in {"new", "done"}
=============================================================================
