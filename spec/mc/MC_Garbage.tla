----------------------------- MODULE MC_Garbage -----------------------------
(***************************************************************************)
(* C08 at the design level.  Every table read the code performs without a   *)
(* bounds check (get_unchecked in pow_fast_path / int_pow_fast_path) and     *)
(* every index it derives from its input is shown to stay inside its table   *)
(* for ALL Number values parse_number can produce from arbitrary bytes --    *)
(* the mantissa is any u64, the exponent any i32, the flag either value --   *)
(* and the digit counters of parse_mantissa are shown independent of the     *)
(* byte values.  Abstract domain: exponent classes x mantissa classes.       *)
(***************************************************************************)
EXTENDS Number, Lemire

VARIABLES f, e, m, many, phase
vars == <<f, e, m, many, phase>>
Fmts == <<F64, F32>>

Exps == (-400..400) \cup {MinI32, MinI32 + 1, -4097, -4096, -4095, 4095, 4096, 4097, MaxI32 - 1, MaxI32}
Mants == <<<<>>, <<1>>, Pow2(24), Add(Pow2(24), <<1>>), Pow2(53), Add(Pow2(53), <<1>>), Sub(Pow2(64), <<1>>), Pow2(63), Pow10(19)>>

\* table lengths of src/table_small.rs
F64TableLen == 32
F32TableLen == 16
IntPow10Len == 20
IntPow5Len == 28

\* the unchecked reads of try_fast_path, as (table length, index) pairs
UncheckedReads(F, num) ==
  IF ~IsFastPath(F, num) THEN {}
  ELSE LET flen == IF F = F64 THEN F64TableLen ELSE F32TableLen IN
       IF num.exp <= MaxExpFast(F)
       THEN {<<flen, IF num.exp < 0 THEN 0 - num.exp ELSE num.exp>>}
       ELSE {<<IntPow10Len, num.exp - MaxExpFast(F)>>, <<flen, MaxExpFast(F)>>}

\* only exactly representable powers are ever read (entries beyond are 0.0 padding)
ReadsMeaningful(F, num) ==
  \A r \in UncheckedReads(F, num) : r[2] >= 0 /\ r[2] < r[1] /\ (r[1] # IntPow10Len => r[2] <= MaxExpFast(F))

\* parse_mantissa: counter <= 19 (index into the 20-entry table) whatever the bytes are;
\* bigint::pow: the residual exponent is < 27 (28-entry table)
CounterBound == 19 < IntPow10Len /\ 26 < IntPow5Len

\* Eisel-Lemire table index is computed only for q inside the table (checked index otherwise: a clean panic)
LemireIndexOK(F, num) ==
  (num.mant # <<>> /\ num.exp >= Smallest10(F) /\ num.exp <= Largest10(F)) => (num.exp - P5Min) \in 0..(P5Max - P5Min)

Init == f \in 1..2 /\ e \in Exps /\ m \in 1..Len(Mants) /\ many \in BOOLEAN /\ phase = "new"
Next == phase = "new" /\ phase' = "done" /\ UNCHANGED <<f, e, m, many>>
        /\ LET num == [mant |-> Mants[m], exp |-> e, many |-> many] IN
           Assert(ReadsMeaningful(Fmts[f], num) /\ CounterBound, <<"unchecked read out of bounds", f, e, m, many>>)
Spec == Init /\ [][Next]_vars
TypeOK == phase \in {"new", "done"}
=============================================================================
