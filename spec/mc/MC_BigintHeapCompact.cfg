CONSTANTS
  LB = 15
  LBITS = 3
  CAP = 3
  Heap = TRUE
  SmallStep = 1
  LargeStep = 3
  NoLargeStep = TRUE
  MaxExp = 8
  MaxYLen = 2
SPECIFICATION Spec
INVARIANT TypeOK
CHECK_DEADLOCK FALSE
