----------------------------- MODULE MC_Bigint -----------------------------
(***************************************************************************)
(* C12 at the design level: the limb-level algorithms of BigintOps against  *)
(* arithmetic on naturals, for EVERY pair of operand vectors up to the      *)
(* capacity (small limbs so that the space is finite): exactness on         *)
(* success, and -- for normalised non-zero operands on the fixed-capacity   *)
(* back-end -- failure exactly when the result does not fit.                *)
(***************************************************************************)
EXTENDS BigintOps, FiniteSets

CONSTANTS MaxExp, MaxYLen

VARIABLES x, y, phase
vars == <<x, y, phase>>

LimbSet == {FromInt(v) : v \in 0..(2^LBITS - 1)}
VecsOfLen(n) == [1..n -> LimbSet]
AllVecs == UNION {VecsOfLen(n) : n \in 0..CAP}

Checks ==
  /\ \A start \in 0..CAP : LET out == LargeAddFrom(x, y, start) IN
        /\ IsVec(out.v) /\ LargeAddMeans(x, y, start, out)
        /\ (out.r = "none" /\ Len(y) + start > CAP => out.v = x)
  /\ LET out == LongMul(x, y) IN IsVec(out.v) /\ LongMulMeans(x, y, out)
  /\ LET out == LargeMul(x, y) IN IsVec(out.v) /\ LargeMulMeans(x, y, out) /\ (out.r = "none" /\ Len(y) # 1 => out.v = x)
  /\ \A n \in 0..(LBITS * CAP + 1) : LET out == ShlVec(x, n) IN IsVec(out.v) /\ ShlMeans(x, n, out)
  /\ \A n \in 1..(LBITS - 1) : LET out == ShlBits(x, n) IN
        /\ IsVec(out.v) /\ (out.r = "ok" => ValueOfVec(out.v) = Shl(ValueOfVec(x), n))
        /\ (~Heap => (out.r = "none" <=> ~FitsCap(Shl(ValueOfVec(x), n)) /\ Len(x) = CAP))
  /\ \A n \in 1..(CAP + 1) : LET out == ShlLimbs(x, n) IN
        (out.r = "ok" => ValueOfVec(out.v) = Shl(ValueOfVec(x), LBITS * n)) /\ (out.r = "none" => out.v = x)
  /\ BitLengthMeans(x) /\ CompareMeans(x, y) /\ Hi64Means(x)
  /\ (y = <<>> => \A e \in 0..MaxExp : LET out == Pow(x, e) IN IsVec(out.v) /\ PowMeans(x, e, out))

\* the hi64 building blocks for both limb widths, on limb values that exercise every shift class
HiVals32 == {<<1>>, <<2>>, <<5>>, Pow2(15), Pow2(16), Sub(Pow2(31), <<1>>), Pow2(31), Add(Pow2(31), <<1>>), Sub(Pow2(32), <<1>>)}
HiVals64 == {<<1>>, <<3>>, Pow2(31), Pow2(32), Sub(Pow2(63), <<1>>), Pow2(63), Add(Pow2(63), <<1>>), Sub(Pow2(64), <<1>>)}
HiBlocks ==
  /\ \A a \in HiVals32 : HiMeans(a, U32Hi1(a))
  /\ \A a \in HiVals32, b \in HiVals32 \cup {<<>>} : HiMeans(Add(Shl(a, 32), b), U32Hi2(a, b))
  /\ \A a \in HiVals32, b \in HiVals32 \cup {<<>>}, c \in {<<>>, <<1>>, Pow2(31), Sub(Pow2(32), <<1>>)} :
        HiMeans(Add(Shl(a, 64), Add(Shl(b, 32), c)), U32Hi3(a, b, c))
  /\ \A a \in HiVals64 : HiMeans(a, U64Hi1(a))
  /\ \A a \in HiVals64, b \in HiVals64 \cup {<<>>} : HiMeans(Add(Shl(a, 64), b), U64Hi2(a, b))

Init == x \in AllVecs /\ y \in UNION {VecsOfLen(n) : n \in 0..MaxYLen} /\ phase = "new"
Next == phase = "new" /\ phase' = "done" /\ UNCHANGED <<x, y>>
        /\ Assert(Checks, <<"limb-level algorithm differs from arithmetic", x, y>>)
        /\ Assert(x # <<>> \/ y # <<>> \/ HiBlocks, "hi64 building blocks differ from their meaning")
Spec == Init /\ [][Next]_vars
TypeOK == phase \in {"new", "done"}
=============================================================================
