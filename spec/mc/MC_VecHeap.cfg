CONSTANTS
  LB = 15
  LBITS = 2
  CAP = 2
  Heap = TRUE
SPECIFICATION Spec
INVARIANT LenBounded
INVARIANT OrderingMeans
CONSTRAINT Bounded
CHECK_DEADLOCK FALSE
