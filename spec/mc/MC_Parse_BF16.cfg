CONSTANTS
  LB = 15
  FmtName = "BF16"
  Stride = 1
  Offset = 0
  MaxShort = 99
  PrintEvery = 64
SPECIFICATION Spec
INVARIANT Correct01
CHECK_DEADLOCK FALSE
