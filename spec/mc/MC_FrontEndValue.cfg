CONSTANTS
  LB = 15
  MaxLen = 5
SPECIFICATION Spec
INVARIANT TypeOK
CHECK_DEADLOCK FALSE
