CONSTANTS
  LB = 15
  FmtName = "BF16"
  Stride = 48
  Offset = 5
  MaxShort = 9
  PrintEvery = 3
SPECIFICATION Spec
INVARIANT Correct01
CHECK_DEADLOCK FALSE
