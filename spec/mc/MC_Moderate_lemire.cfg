CONSTANTS
  LB = 15
  FmtName = "BF16"
  Variant = "lemire"
  MaxW = 120
  Stride = 32
SPECIFICATION Spec
INVARIANT ContractHolds
CHECK_DEADLOCK FALSE
