---------------------------- MODULE MC_Moderate ----------------------------
(***************************************************************************)
(* C11 at the design level: the contract of the extended-precision stage    *)
(* checked on the algorithm models (Lemire.tla, Bellerophon.tla) for a      *)
(* small float format, on                                                   *)
(*   - every midpoint of the format: its first 1..19 digits as w (and w+-1) *)
(*     with the matching q, truncated and not;                              *)
(*   - every w up to MaxW with every q of the table range.                  *)
(* Contract: a definite result is the correctly rounded value of w*10^q     *)
(* and, if digits were dropped, of every real in [w,w+1)*10^q.              *)
(* Variant "original" is Bellerophon as it was before the repair of finding *)
(* F1: the run must FIND violations there (the driver checks that it does). *)
(***************************************************************************)
EXTENDS Lemire, Bellerophon, Json

CONSTANTS FmtName, Variant, MaxW, Stride

Fm == IF FmtName = "F10" THEN F10 ELSE BF16
MaxFinite == ToInt(InfBits(Fm)) - 1

VARIABLES kind, b, nd, dw, q0, w0, trunc, phase, res
vars == <<kind, b, nd, dw, q0, w0, trunc, phase, res>>

\* (w, q) of a case
CaseOf ==
  IF kind = "mid" THEN
     LET mid == Midpoint(Fm, FromInt(b))
         d == ExactDecimal(mid.M, mid.k)
         n == Len(d.ds)
         k == Min2(nd, n)
         w == FromDigits(SubSeq(d.ds, 1, k))
         w2 == IF dw = 1 THEN Add(w, <<1>>) ELSE IF dw = 2 /\ w # <<>> THEN Sub(w, <<1>>) ELSE w
     IN [w |-> w2, q |-> d.e + n - k]
  ELSE [w |-> FromInt(w0), q |-> q0]

UpperEndOK(bits, w, q) ==
  LET dc == Decode(Fm, bits) IN
  IF dc.class = "inf" THEN TRUE
  ELSE LET mid == Midpoint(Fm, bits) IN CmpDV(DecOfWQ(Add(w, <<1>>), q), mid.M, mid.k) <= 0

Contract(m, w, q, tr) ==
  IF ~m.valid THEN "declined"
  ELSE LET bits == ExtendedToFloat(Fm, [mant |-> m.mant, exp |-> m.exp]) IN
       IF Judge(Fm, bits, DecOfWQ(w, q)) # "ok" THEN "wrong"
       ELSE IF tr /\ ~UpperEndOK(bits, w, q) THEN "wrong_interval"
       ELSE "definite_ok"

Run(num) ==
  CASE Variant = "lemire" -> LemirePath(Fm, num)
    [] Variant = "bellerophon" -> BellerophonPath(Fm, num)
    [] Variant = "original" -> BellerophonOriginal(Fm, num)

Init ==
  /\ phase = "new" /\ res = "none"
  /\ \/ /\ kind = "mid" /\ b \in {x \in 0..MaxFinite : x % Stride = 0}
        /\ nd \in {1, 2, 3, 5, 8, 17, 18, 19} /\ dw \in 0..2 /\ trunc \in BOOLEAN
        /\ q0 = 0 /\ w0 = 0
     \/ /\ kind = "small" /\ w0 \in 1..MaxW /\ q0 \in (Consts(Fm).small10 - 2)..(Consts(Fm).large10 + 2)
        /\ trunc \in BOOLEAN /\ b = 0 /\ nd = 0 /\ dw = 0

\* w = 0 with dropped digits is the call-site class of the known findings F4/F5: excluded here
Next ==
  /\ phase = "new" /\ phase' = "done"
  /\ LET c == CaseOf
         m == Run([mant |-> c.w, exp |-> c.q, many |-> trunc])
         v == IF c.w = <<>> /\ trunc THEN "excluded" ELSE Contract(m, c.w, c.q, trunc)
     IN /\ res' = v
        /\ (v \in {"wrong", "wrong_interval"} =>
              PrintT("VP|" \o ToJson([kind |-> kind, b |-> b, nd |-> nd, dw |-> dw, w |-> c.w, q |-> c.q, trunc |-> trunc, verdict |-> v, tr |-> m.tr])))
  /\ UNCHANGED <<kind, b, nd, dw, q0, w0, trunc>>

Spec == Init /\ [][Next]_vars
ContractHolds == res \notin {"wrong", "wrong_interval"}
=============================================================================
