------------------------------ MODULE MC_Calls ------------------------------
(* Instance of Calls.tla: 3 threads, two inputs, two garbage values, every    *)
(* initial stack content, every interleaving, up to two calls per thread.      *)
EXTENDS Calls
InputsDef == {<<1, 1>>, <<2>>}
ThreadsDef == {1, 2, 3}
GarbageDef == {0, 7}
=============================================================================
