------------------------------ MODULE MC_Calls ------------------------------
(* Instance of Calls.tla: 3 threads, two inputs, two garbage values, every    *)
(* initial stack content, every interleaving, up to two calls per thread.      *)
EXTENDS Calls
InputsDef == {<<1, 1>>, <<2>>}
ThreadsDef == {1, 2, 3}
GarbageDef == {0, 7}
\* the memo designs: two inputs with the same first element and different results, two threads
InputsMemoDef == {<<1, 1>>, <<1>>}
ThreadsMemoDef == {1, 2}
=============================================================================
