CONSTANTS
  LB = 15
  LBITS = 3
  CAP = 3
  Heap = FALSE
  SmallStep = 1
  LargeStep = 3
  NoLargeStep = FALSE
  MaxExp = 8
  MaxYLen = 3
SPECIFICATION Spec
INVARIANT TypeOK
CHECK_DEADLOCK FALSE
