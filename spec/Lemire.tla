------------------------------- MODULE Lemire -------------------------------
(***************************************************************************)
(* src/lemire.rs: the Eisel-Lemire moderate path of default builds, action  *)
(* by action.  Results are [mant, exp, valid, tr, dbg]: `valid` is          *)
(* "exp >= 0" of the code (a definite float), `tr` the list of named        *)
(* branches taken (coverage), `dbg` a debug assertion / overflow check      *)
(* that would fire in a checked build.                                      *)
(***************************************************************************)
EXTENDS Rounding, Tables

\* per-format constants of num.rs used here
MinimumExponent(F) == -Bias(F)                 \* MINIMUM_EXPONENT (-1023 / -127)
Smallest10(F) == Consts(F).small10
Largest10(F)  == Consts(F).large10
TieMin(F)     == Consts(F).tiemin
TieMax(F)     == Consts(F).tiemax

\* power(q) = ((q * 217706) >> 16) + 63, wrapping multiply; |q| <= 342 here
Power(q) == ((q * 217706) \div 65536) + 63

FullMul(a, b) == LET r == Mul(a, b) IN [lo |-> ModPow2(r, 64), hi |-> Shr(r, 64)]

\* compute_product_approx(q, w, precision) -> [lo, hi, second]
ProductApprox(q, w, precision) ==
  LET mask == Shr(U64Max, precision)           \* precision < 64
      first == FullMul(w, P5Hi(q))
  IN IF ModPow2(first.hi, 64 - precision) = mask            \* first_hi & mask == mask
     THEN LET second == FullMul(w, P5Lo(q))
              nlo == WrapAdd64(first.lo, second.hi)
              nhi == IF Cmp(second.hi, nlo) > 0 THEN Add(first.hi, <<1>>) ELSE first.hi
          IN [lo |-> nlo, hi |-> nhi, second |-> TRUE]
     ELSE [lo |-> first.lo, hi |-> first.hi, second |-> FALSE]

FpZero(t) == [mant |-> <<>>, exp |-> 0, valid |-> TRUE, tr |-> t, dbg |-> FALSE]
FpInf(F, t) == [mant |-> <<>>, exp |-> InfinitePower(F), valid |-> TRUE, tr |-> t, dbg |-> FALSE]

\* compute_error_scaled(q, w, lz): the declined estimate (INVALID_FP bias left out)
ErrorScaled(F, q, w, lz, t) ==
  LET hilz == 1 - Bit(w, 63)
      w2 == Shl64(w, hilz)
  IN [mant |-> w2, exp |-> Power(q) + ExpBias(F) - hilz - lz - 62, valid |-> FALSE, tr |-> t, dbg |-> FALSE]

\* compute_float(q, w)
ComputeFloat(F, q, w0) ==
  IF w0 = <<>> \/ q < Smallest10(F) THEN FpZero(<<"L_ShortZero">>)
  ELSE IF q > Largest10(F) THEN FpInf(F, <<"L_ShortInf">>)
  ELSE
  LET lz == Lz64(w0)
      w == Shl(w0, lz)
      pr == ProductApprox(q, w, F.mbits + 3)
      t0 == IF pr.second THEN <<"L_Product2">> ELSE <<"L_Product1">>
      lo == pr.lo  hi == pr.hi
  IN IF lo = U64Max /\ ~(q >= -27 /\ q <= 55) THEN ErrorScaled(F, q, hi, lz, t0 \o <<"L_FallbackAllOnes">>)
     ELSE
     LET upperbit == Bit(hi, 63)
         sh == upperbit + 64 - F.mbits - 3
         m0 == Shr(hi, sh)
         p2 == Power(q) + upperbit - lz - MinimumExponent(F)
     IN IF p2 <= 0 THEN
          IF -p2 + 1 >= 64 THEN FpZero(t0 \o <<"L_SubnormalZero">>)
          ELSE LET m1 == Shr(m0, -p2 + 1)
                   m2 == Shr(Add(m1, FromInt(At(m1, 1) % 2)), 1)
               IN [mant |-> m2, exp |-> IF Cmp(m2, Pow2(F.mbits)) >= 0 THEN 1 ELSE 0,
                   valid |-> TRUE, tr |-> t0 \o <<"L_Subnormal">>, dbg |-> FALSE]
        ELSE
          LET tie == /\ Cmp(lo, <<1>>) <= 0 /\ q >= TieMin(F) /\ q <= TieMax(F)
                     /\ ToInt(ModPow2(m0, 2)) = 1 /\ Shl(m0, sh) = hi
              m1 == IF tie THEN Sub(m0, <<1>>) ELSE m0
              m2 == Shr(Add(m1, FromInt(At(m1, 1) % 2)), 1)
              carry == Cmp(m2, Pow2(F.mbits + 1)) >= 0
              m3 == IF carry THEN Pow2(F.mbits) ELSE m2
              p3 == IF carry THEN p2 + 1 ELSE p2
              m4 == ModPow2(m3, F.mbits)
              t1 == t0 \o (IF tie THEN <<"L_TieWindow">> ELSE <<>>) \o (IF carry THEN <<"L_RoundCarry">> ELSE <<>>)
          IN IF p3 >= InfinitePower(F) THEN FpInf(F, t1 \o <<"L_Inf">>)
             ELSE [mant |-> m4, exp |-> p3, valid |-> TRUE, tr |-> t1 \o <<"L_Definite">>, dbg |-> FALSE]

\* compute_error(q, w)
\* The code indexes the 5^q table without a range check here: outside [P5Min, P5Max] it panics (index out of
\* bounds; reachable only with mantissa = u64::MAX and truncated digits, finding F4).  The model is total: it
\* reports that outcome instead of failing to evaluate.
ComputeError(F, q, w0, t) ==
  IF q < P5Min \/ q > P5Max
  THEN [mant |-> <<>>, exp |-> 0, valid |-> FALSE, tr |-> t \o <<"L_IndexPanic">>, dbg |-> TRUE]
  ELSE
  LET lz == Lz64(w0)
      w == Shl(w0, lz)
      hi == ProductApprox(q, w, F.mbits + 3).hi
  IN ErrorScaled(F, q, hi, lz, t)

SameFp(a, b) == a.mant = b.mant /\ a.exp = b.exp /\ a.valid = b.valid

\* lemire(num): two passes when digits were truncated.
\* `checked` = build with overflow checks (mantissa + 1 may trip one);
\* in release the addition wraps.
LemirePath(F, num) ==
  LET a == ComputeFloat(F, num.exp, num.mant) IN
  IF num.many /\ a.valid THEN
     LET ovf == num.mant = U64Max
         w1 == WrapAdd64(num.mant, <<1>>)
         b == ComputeFloat(F, num.exp, w1)
     IN IF ~SameFp(a, b)
        THEN LET e == ComputeError(F, num.exp, num.mant, a.tr \o <<"L_TruncDiffer">>)
             IN [e EXCEPT !.dbg = ovf]
        ELSE [a EXCEPT !.tr = a.tr \o <<"L_TruncAgree">>, !.dbg = ovf]
  ELSE a
=============================================================================
