-------------------------------- MODULE Segs --------------------------------
(***************************************************************************)
(* Digit (byte) strings in run-length form, so that a 10^6-digit input is  *)
(* a few records and every operator costs O(#segments + digits asked for). *)
(* A string is a sequence of segments [d |-> <<v1,..,vk>>, n |-> r]: the   *)
(* block d (k >= 1) repeated r >= 1 times.  Values are digit values 0..9   *)
(* for valid inputs and raw byte values minus 48 (mod 256) for garbage.    *)
(***************************************************************************)
EXTENDS BigNat

SegLen(s) == Len(s.d) * s.n

SLen(S) == FoldLeft(LAMBDA acc, k: acc + SegLen(S[k]), 0, Idx(Len(S)))

\* element at 1-based position i inside one segment
SegAt(s, i) == s.d[((i - 1) % Len(s.d)) + 1]

\* the first Min2(k, SLen(S)) elements, expanded
SFirst(S, k) ==
  FoldLeft(LAMBDA acc, j:
             IF Len(acc) >= k THEN acc
             ELSE LET s == S[j]
                      take == Min2(k - Len(acc), SegLen(s))
                  IN acc \o [i \in 1..take |-> SegAt(s, i)],
           <<>>, Idx(Len(S)))

\* elements at positions from..to (1-based, inclusive), expanded; to - from small
SSlice(S, from, to) ==
  LET r == FoldLeft(LAMBDA acc, j:
                 LET s == S[j]  off == acc[1]  L == SegLen(s)
                     lo == Max2(from, off + 1)  hi == Min2(to, off + L)
                 IN IF lo > hi THEN <<off + L, acc[2]>>
                    ELSE <<off + L, acc[2] \o [i \in 1..(hi - lo + 1) |-> SegAt(s, lo - off + i - 1)]>>,
               <<0, <<>>>>, Idx(Len(S)))
  IN r[2]

AllZeroBlock(d) == \A i \in 1..Len(d) : d[i] = 0
FirstNonZeroIdx(d) == CHOOSE i \in 1..Len(d) : d[i] # 0 /\ \A j \in 1..(i-1) : d[j] = 0

\* number of leading zero elements
SLeadingZeros(S) ==
  FoldLeft(LAMBDA acc, j:
             IF acc[2] THEN acc
             ELSE LET s == S[j] IN
                  IF AllZeroBlock(s.d) THEN <<acc[1] + SegLen(s), FALSE>>
                  ELSE <<acc[1] + FirstNonZeroIdx(s.d) - 1, TRUE>>,
           <<0, FALSE>>, Idx(Len(S)))[1]

\* is there a non-zero element at a position > k ?
SAnyNonZeroAfter(S, k) ==
  FoldLeft(LAMBDA acc, j:
             LET s == S[j]  off == acc[1]  L == SegLen(s)
                 skip == Max2(k - off, 0)           \* elements of this segment at positions <= k
                 rest == L - skip
                 hit == IF rest <= 0 THEN FALSE
                        ELSE IF rest >= Len(s.d) THEN ~AllZeroBlock(s.d)
                        ELSE \E i \in (skip + 1)..L : SegAt(s, i) # 0
             IN <<off + L, acc[2] \/ hit>>,
           <<0, FALSE>>, Idx(Len(S)))[2]

\* is every element a decimal digit value?
SAllDigits(S) == \A j \in 1..Len(S) : \A i \in 1..Len(S[j].d) : S[j].d[i] \in 0..9
SWellFormed(S) == \A j \in 1..Len(S) : Len(S[j].d) >= 1 /\ S[j].n >= 1

\* last element (S non-empty)
SLast(S) == LET s == S[Len(S)] IN s.d[Len(s.d)]
SFirstElem(S) == S[1].d[1]

\* a plain sequence as a one-segment string (empty -> <<>>)
Lit(ds) == IF ds = <<>> THEN <<>> ELSE <<[d |-> ds, n |-> 1]>>
=============================================================================
