CONSTANTS
  LB = 15
SPECIFICATION Spec
INVARIANT VerdictOK
CHECK_DEADLOCK FALSE
