------------------------------ MODULE CF_Calls ------------------------------
(***************************************************************************)
(* Trace validation for C16.  Events are returns of parse_float observed    *)
(* from several threads (per-thread sequence numbers, different iterator    *)
(* adaptor shapes, poisoned stacks); the baseline is what a sequential run   *)
(* with plain slice iterators returned for each input.                       *)
(* Spec action Return(t, e) is enabled only if the event is the thread's     *)
(* next one and carries Baseline[input] -- the "result is a function of the  *)
(* input" of Calls.tla.  One behaviour per thread; no timing, no oracle.     *)
(***************************************************************************)
EXTENDS Naturals, Sequences, TLC, Json, IOUtils

Events == ndJsonDeserialize(IOEnv.VERIF_RECORDS)         \* [{thread, events:[{id, seq, shape, kind, bits}]}]
Baseline == ndJsonDeserialize(IOEnv.VERIF_BASELINE)      \* [{id, kind, bits}] in id order
N == Len(Events)

VARIABLES t, l, verdict
vars == <<t, l, verdict>>

Init == t \in 1..N /\ l = 1 /\ verdict = "none"

Return ==
  /\ verdict = "none" /\ l <= Len(Events[t].events)
  /\ LET e == Events[t].events[l]
         b == Baseline[e.id]
     IN IF e.seq = l - 1 /\ b.id = e.id /\ e.kind = b.kind /\ e.bits = b.bits
        THEN l' = l + 1 /\ verdict' = verdict
        ELSE /\ verdict' = "impl_violates" /\ l' = l
             /\ PrintT("VP|" \o ToJson([id |-> Events[t].thread, verdict |-> "impl_violates", at |-> l, input |-> e.id, shape |-> e.shape,
                                         observed |-> e.bits, baseline |-> b.bits]))
  /\ UNCHANGED t

Accept ==
  /\ verdict = "none" /\ l = Len(Events[t].events) + 1
  /\ verdict' = "ok"
  /\ PrintT("VP|" \o ToJson([id |-> Events[t].thread, verdict |-> "ok", at |-> l - 1, input |-> 0, shape |-> 0, observed |-> <<>>, baseline |-> <<>>]))
  /\ UNCHANGED <<t, l>>

Next == Return \/ Accept
Spec == Init /\ [][Next]_vars
VerdictOK == verdict \in {"none", "ok"}
=============================================================================
