----------------------------- MODULE CF_Moderate -----------------------------
(***************************************************************************)
(* C11: records {w, q, trunc} -> what parse::moderate_path returned, in a   *)
(* default build (Eisel-Lemire) and a compact build (Bellerophon).          *)
(*                                                                         *)
(* Contract (the property): a definite result is the correctly rounded     *)
(* value of w * 10^q and, if digits were dropped, of every real in          *)
(* [w, w+1) * 10^q.  Declines are always acceptable.                        *)
(* Conformance (diagnostic, never a verdict): the algorithm models          *)
(* Lemire.tla / Bellerophon.tla reproduce the implementation's result       *)
(* field by field, including the declined estimate.                         *)
(***************************************************************************)
EXTENDS Lemire, Bellerophon, Json, IOUtils

Recs == ndJsonDeserialize(IOEnv.VERIF_RECORDS)
N == Len(Recs)

VARIABLES i, pc, verdict, trail
vars == <<i, pc, verdict, trail>>

FmtOf(r) == IF r.fmt = "f64" THEN F64 ELSE F32

\* every real in [w, w+1) * 10^q rounds to `bits` (given that w * 10^q does)
UpperEndOK(F, bits, w, q) ==
  LET dc == Decode(F, bits) IN
  IF dc.class = "inf" THEN TRUE
  ELSE LET mid == Midpoint(F, bits)
           c == CmpDV(DecOfWQ(Add(w, <<1>>), q), mid.M, mid.k)
       IN c <= 0

Contract(r, o) ==
  IF o.kind # "value" THEN "panic"
  ELSE IF ~o.valid THEN "declined"
  ELSE LET F == FmtOf(r)
           j == Judge(F, o.bits, DecOfWQ(r.w, r.q))
       IN IF j # "ok" THEN "wrong"
          ELSE IF r.trunc /\ ~UpperEndOK(F, o.bits, r.w, r.q) THEN "wrong_interval"
          ELSE "definite_ok"

IsCompact(cfgname) == \E k \in 1..(Len(cfgname) - 6) : SubSeq(cfgname, k, k + 6) = "compact"

ModelOf(r, o) ==
  LET num == [mant |-> r.w, exp |-> r.q, many |-> r.trunc] IN
  IF IsCompact(o.cfg) THEN BellerophonPath(FmtOf(r), num) ELSE LemirePath(FmtOf(r), num)

Conforms(r, o) ==
  LET m == ModelOf(r, o) IN
  o.kind = "value" /\ m.valid = o.valid /\ m.mant = o.mant /\ m.exp = o.exp

Init == i \in 1..N /\ pc = "start" /\ verdict = "none" /\ trail = <<>>

JudgeContract ==
  /\ pc = "start"
  /\ LET r == Recs[i]
         cs == [k \in 1..Len(r.outs) |-> Contract(r, r.outs[k])]
     IN /\ trail' = cs
        /\ IF \E k \in 1..Len(cs) : cs[k] \in {"wrong", "wrong_interval", "panic"}
           THEN verdict' = "impl_violates" /\ pc' = "report"
           ELSE verdict' = verdict /\ pc' = "contract_ok"
  /\ UNCHANGED i

\* model vs implementation, field by field (DRIFT is a note, not a verdict);
\* the model's own result is also held to the contract (spec_disagrees)
CompareModel ==
  /\ pc = "contract_ok"
  /\ LET r == Recs[i]
         ms == [k \in 1..Len(r.outs) |-> ModelOf(r, r.outs[k])]
         drift == \E k \in 1..Len(r.outs) : ~Conforms(r, r.outs[k])
         tags == [k \in 1..Len(ms) |-> ms[k].tr]
     IN /\ trail' = trail \o <<IF drift THEN "DRIFT" ELSE "conforms">> \o <<ToJson(tags)>>
        /\ verdict' = "ok" /\ pc' = "report"
  /\ UNCHANGED i

Finish ==
  /\ pc = "report"
  /\ PrintT("VP|" \o ToJson([id |-> Recs[i].id, verdict |-> verdict, trail |-> trail]))
  /\ pc' = "done" /\ UNCHANGED <<i, verdict, trail>>

Next == JudgeContract \/ CompareModel \/ Finish
Spec == Init /\ [][Next]_vars
VerdictOK == verdict \in {"none", "ok"}
=============================================================================
