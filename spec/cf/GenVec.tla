------------------------------- MODULE GenVec -------------------------------
(***************************************************************************)
(* Generator of operation histories from the vector specification (spec ->  *)
(* impl direction of C13).  Run with `tlc -simulate`: every behaviour is one *)
(* history of Depth operations chosen at random from the specification's     *)
(* actions; the final action prints it as JSON with the result, length and   *)
(* contents the specification expects after every step.  The harness         *)
(* replays it into the real StackVec / HeapVec and compares step by step.    *)
(* (The history variable lives here only, never in the model that is         *)
(* checked exhaustively.)                                                    *)
(***************************************************************************)
EXTENDS Vec, Json, IOUtils

CONSTANT Depth

VARIABLES a, b, hist, n, rnd
vars == <<a, b, hist, n, rnd>>

Val(k) == CASE k = 1 -> <<>> [] k = 2 -> <<1>> [] k = 3 -> <<2>> [] k = 4 -> Pow2(32) [] k = 5 -> Pow2(63)
            [] k = 6 -> Sub(Pow2(64), <<2>>) [] k = 7 -> Sub(Pow2(64), <<1>>) [] k = 8 -> FromDigits(<<1,2,3,4,5,6,7,8,9,8,7,6,5,4,3,2,1>>)
\* Random draws are made once per step into the state variable `rnd` (a LET
\* definition containing RandomElement would be re-evaluated at every use).
SliceLens == <<0, 1, 2, 3, 7, 20, 30, 61, 62, 63>>
\* for the bounded (stack) vector also lengths far beyond the capacity whose low 8 / 16 / 24 bits look like a valid length
ResizeLens == <<0, 1, 2, 30, 60, 61, 62, 63, 64>> \o
              (IF Heap THEN <<>> ELSE <<256, 258, 286, 65536, 65537, 65541, 65566, 65597, 131074, 16777217, 2147483647>>)
OpSeq == <<"new", "push", "push", "pop", "extend", "resize", "from", "normalize", "add_small", "mul_small",
           "from_u64", "clone", "swap", "compare", "eq", "is_normalized", "is_empty", "hi64", "push", "extend",
           \* more weight on clone / small change / comparison, so that equal-length vectors with different contents are compared
           "clone", "add_small", "eq", "compare", "clone", "mul_small", "compare", "eq">>
Draw == [op |-> RandomElement(1..Len(OpSeq)), v |-> RandomElement(1..8), sl |-> RandomElement(1..Len(SliceLens)),
         sb |-> RandomElement(1..8), m |-> RandomElement(1..Len(ResizeLens))]
SliceOf(r) == [k \in 1..SliceLens[r.sl] |-> Val(((r.sb + k * k) % 8) + 1)]
BoolStr(x) == IF x THEN "true" ELSE "false"

Apply(op, arg, s, m) ==
  LET keep(out) == [a |-> out.v, b |-> b, r |-> out.r, x |-> <<>>] IN
  CASE op = "new"       -> [a |-> <<>>, b |-> b, r |-> "ok", x |-> <<>>]
    [] op = "push"      -> keep(TryPush(a, arg))
    [] op = "pop"       -> LET p == Pop(a) IN [a |-> p.v, b |-> b, r |-> p.r, x |-> p.x]
    [] op = "extend"    -> keep(TryExtend(a, s))
    [] op = "resize"    -> keep(TryResize(a, m, arg))
    [] op = "from"      -> keep(TryFrom(s))
    [] op = "normalize" -> [a |-> Normalize(a), b |-> b, r |-> "ok", x |-> <<>>]
    [] op = "add_small" -> keep(SmallAdd(a, arg))
    [] op = "mul_small" -> keep(SmallMul(a, arg))
    [] op = "from_u64"  -> [a |-> FromU64(arg), b |-> b, r |-> "ok", x |-> <<>>]
    [] op = "clone"     -> [a |-> a, b |-> a, r |-> "ok", x |-> <<>>]
    [] op = "swap"      -> [a |-> b, b |-> a, r |-> "ok", x |-> <<>>]
    [] op = "compare"   -> LET c == CompareVec(a, b) IN
                           [a |-> a, b |-> b, r |-> IF c < 0 THEN "lt" ELSE IF c > 0 THEN "gt" ELSE "eq", x |-> <<>>]
    [] op = "eq"        -> [a |-> a, b |-> b, r |-> BoolStr(EqVec(a, b)), x |-> <<>>]
    [] op = "is_normalized" -> [a |-> a, b |-> b, r |-> BoolStr(Normalized(a)), x |-> <<>>]
    [] op = "is_empty"  -> [a |-> a, b |-> b, r |-> BoolStr(a = <<>>), x |-> <<>>]
    [] op = "hi64"      -> LET t == Hi64Vec(a) IN
                           [a |-> a, b |-> b, r |-> IF t.sticky THEN "sticky" ELSE "exact", x |-> t.hi]

Init == a = <<>> /\ b = <<>> /\ hist = <<>> /\ n = 0 /\ rnd = Draw

Step ==
  /\ n < Depth
  /\ rnd' = Draw
  /\ LET op0 == OpSeq[rnd.op]
         \* hi64 is specified for normalised, non-empty vectors only
         op == IF op0 = "hi64" /\ ~(Normalized(a) /\ a # <<>>) THEN "normalize" ELSE op0
         arg == Val(rnd.v)
         s == SliceOf(rnd)
         m == ResizeLens[rnd.m]
         out == Apply(op, arg, s, m)
     IN /\ a' = out.a /\ b' = out.b
        /\ hist' = Append(hist, [op |-> op, arg |-> arg, s |-> s, n |-> m, r |-> out.r, x |-> out.x,
                                 len |-> Len(out.a), contents |-> out.a])
  /\ n' = n + 1

Finish ==
  /\ n = Depth
  /\ PrintT("VP|" \o ToJson([id |-> 0, backend |-> IF Heap THEN "heap" ELSE "stack", events |-> hist]))
  /\ n' = Depth + 1 /\ UNCHANGED <<a, b, hist, rnd>>

Next == Step \/ Finish
Spec == Init /\ [][Next]_vars
=============================================================================
