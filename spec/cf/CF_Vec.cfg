CONSTANTS
  LB = 15
  LBITS = 64
  CAP = 62
  Heap = FALSE
SPECIFICATION Spec
INVARIANT VerdictOK
CHECK_DEADLOCK FALSE
