------------------------------ MODULE CF_Parts ------------------------------
(***************************************************************************)
(* Component-level records from the real code against the specification:   *)
(*   table  every power constant, per configuration            (C14)       *)
(*   field  Float helpers, b / b+h on a bit pattern            (C17)       *)
(*   pack   extended_to_float on (biased exponent, fraction)   (C17)       *)
(*   round  rounding::round, nearest-even and truncating       (C18)       *)
(*   mask   the three mask helpers                              (C18)       *)
(***************************************************************************)
EXTENDS Rounding, Tables, Json, IOUtils

Recs == ndJsonDeserialize(IOEnv.VERIF_RECORDS)
N == Len(Recs)

VARIABLES i, pc, verdict, trail
vars == <<i, pc, verdict, trail>>

FmtOf(r) == IF r.fmt = "f64" THEN F64 ELSE F32

\* ------------------------------------------------------------------ tables
\* expected value of a named constant; integers are native, wide values BigNats
TableOK(r) ==
  LET k == r.index  v == r.value IN
  CASE r.name = "p5_hi" -> v = P5Hi(k)
    [] r.name = "p5_lo" -> v = P5Lo(k)
    [] r.name = "p5_min" -> v = P5Min
    [] r.name = "p5_max" -> v = P5Max
    [] r.name = "p5_len" -> v = P5Max - P5Min + 1
    [] r.name \in {"int_pow5", "fn_int_pow5"} -> k \in 0..27 /\ v = SmallIntPow5(k)
    [] r.name \in {"int_pow10", "fn_int_pow10"} -> k \in 0..19 /\ v = SmallIntPow10(k)
    [] r.name \in {"f32_pow10", "fn_f32_pow10", "libm_powf"} -> k \in 0..10 /\ v = Pow10Float(F32, k) /\ Pow10Exact(F32, k)
    [] r.name \in {"f64_pow10", "fn_f64_pow10", "libm_powd"} -> k \in 0..22 /\ v = Pow10Float(F64, k) /\ Pow10Exact(F64, k)
    [] r.name = "large_pow5" -> v = LargePow5
    [] r.name = "large_pow5_step" -> v = LargePow5Step
    [] r.name = "b_small" -> k \in 0..9 /\ v = BSmall(k)
    [] r.name = "b_small_exp" -> v = Log2Pow10(k) - 63
    [] r.name = "b_small_int" -> v = BSmallInt(k)
    [] r.name = "b_large" -> k \in 0..65 /\ v = BLarge(k)
    [] r.name = "b_large_exp" -> v = Log2Pow10(k * BStep - BBias) - 63
    [] r.name = "b_step" -> v = BStep
    [] r.name = "b_bias" -> v = BBias
    [] r.name = "b_small_len" -> v = 10
    [] r.name = "b_small_int_len" -> v = 10
    [] r.name = "b_large_len" -> v = 66
    [] OTHER -> FALSE

\* ------------------------------------------------------------------ fields
FieldOK(r) ==
  LET F == FmtOf(r)
      bits == r.bits
      o == r.res
      mag == ModPow2(bits, F.mbits + F.ebits)        \* sign cleared
      dc == Decode(F, mag)
      ef == ExpField(F, mag)
  IN /\ o.is_denormal = (ef = 0)
     /\ o.roundtrip = bits
     /\ (dc.class \in {"zero", "subnormal", "normal"} =>
           /\ o.mantissa = dc.m /\ o.exponent = dc.e
           /\ o.b_mant = dc.m /\ o.b_exp = dc.e
           /\ o.bh_mant = Add(Shl(dc.m, 1), <<1>>) /\ o.bh_exp = dc.e - 1)
     /\ (dc.class \in {"inf", "nan"} =>
           \* the helpers are total: hidden bit supplied, exponent field minus bias
           /\ o.mantissa = Add(Frac(F, mag), Pow2(F.mbits))
           /\ o.exponent = ef - Bias(F) - F.mbits)

PackOK(r) == LET F == FmtOf(r) IN r.res = Encode(F, r.ef, r.frac)

\* ------------------------------------------------------------------- round
\* value = mant * 2^(exp - EXPONENT_BIAS)
RoundOK(r) ==
  LET F == FmtOf(r)
      o == r.res
      val == BinVal(r.mant, r.exp - ExpBias(F))
      model == IF r.variant = "nearest" THEN RoundNearest(F, [mant |-> r.mant, exp |-> r.exp])
               ELSE RoundDown(F, [mant |-> r.mant, exp |-> r.exp])
  IN IF o.kind # "value" THEN [ok |-> FALSE, why |-> "panic", drift |-> FALSE]
     ELSE IF r.variant = "nearest"
     THEN [ok |-> Judge(F, o.packed, val) = "ok", why |-> "not the nearest float",
           drift |-> o.mant # model.mant \/ o.exp # model.exp]
     ELSE \* truncating: largest float not above the value (caller-guaranteed domain: below 2^(emax+1))
          LET dc == Decode(F, o.packed)
              inDomain == CmpDV(val, <<1>>, EMax(F) + 1) < 0
              lowOK == IF dc.class = "zero" THEN TRUE ELSE CmpDV(val, dc.m, dc.e) >= 0
              nx == Decode(F, SuccBits(o.packed))
              highOK == IF nx.class = "inf" THEN TRUE ELSE CmpDV(val, nx.m, nx.e) < 0
          IN [ok |-> ~inDomain \/ (dc.class \in {"zero", "subnormal", "normal"} /\ lowOK /\ highOK),
              why |-> "not the largest float below the value",
              drift |-> o.mant # model.mant \/ o.exp # model.exp]

MaskOK(r) ==
  /\ r.mask = LowerNMask(r.n)
  /\ r.halfway = LowerNHalfway(r.n)
  /\ (r.n < 64 => r.nth = NthBit(r.n))

Init == i \in 1..N /\ pc = "start" /\ verdict = "none" /\ trail = <<>>

CheckTable == /\ pc = "start" /\ Recs[i].t = "table"
              /\ LET ok == TableOK(Recs[i]) IN
                 /\ verdict' = IF ok THEN "ok" ELSE "impl_violates"
                 /\ trail' = <<"table:" \o Recs[i].name, IF ok THEN "equals definition" ELSE "differs from definition">>
              /\ pc' = "report" /\ UNCHANGED i
CheckField == /\ pc = "start" /\ Recs[i].t = "field"
              /\ LET ok == FieldOK(Recs[i]) IN
                 /\ verdict' = IF ok THEN "ok" ELSE "impl_violates"
                 /\ trail' = <<"field:" \o Decode(FmtOf(Recs[i]), ModPow2(Recs[i].bits, FmtOf(Recs[i]).mbits + FmtOf(Recs[i]).ebits)).class>>
              /\ pc' = "report" /\ UNCHANGED i
CheckPack ==  /\ pc = "start" /\ Recs[i].t = "pack"
              /\ LET ok == PackOK(Recs[i]) IN
                 /\ verdict' = (IF ok THEN "ok" ELSE "impl_violates")
                 /\ trail' = <<"pack">>
              /\ pc' = "report" /\ UNCHANGED i
CheckRound == /\ pc = "start" /\ Recs[i].t = "round"
              /\ LET c == RoundOK(Recs[i]) IN
                 /\ verdict' = IF c.ok THEN "ok" ELSE "impl_violates"
                 /\ trail' = <<"round:" \o Recs[i].variant, IF c.ok THEN "ok" ELSE c.why, IF c.drift THEN "DRIFT" ELSE "conforms">>
              /\ pc' = "report" /\ UNCHANGED i
CheckMask ==  /\ pc = "start" /\ Recs[i].t = "mask"
              /\ LET ok == MaskOK(Recs[i]) IN
                 /\ verdict' = (IF ok THEN "ok" ELSE "impl_violates")
                 /\ trail' = <<"mask">>
              /\ pc' = "report" /\ UNCHANGED i

Finish ==
  /\ pc = "report"
  /\ PrintT("VP|" \o ToJson([id |-> Recs[i].id, verdict |-> verdict, trail |-> trail]))
  /\ pc' = "done" /\ UNCHANGED <<i, verdict, trail>>

Next == CheckTable \/ CheckField \/ CheckPack \/ CheckRound \/ CheckMask \/ Finish
Spec == Init /\ [][Next]_vars
VerdictOK == verdict \in {"none", "ok"}
=============================================================================
