---------------------------- MODULE CF_FrontEnd ----------------------------
(***************************************************************************)
(* C19: what every shipped copy of the string front-end returned for a byte *)
(* string, against the declarative definition (longest prefix, correctly    *)
(* rounded and signed value, exact suffix, special literals in the copies   *)
(* that have them, never a panic) and -- as a diagnostic -- against the      *)
(* scanner state machine.                                                    *)
(***************************************************************************)
EXTENDS FrontEnd, Json, IOUtils

Recs == ndJsonDeserialize(IOEnv.VERIF_RECORDS)
N == Len(Recs)

VARIABLES i, pc, verdict, trail
vars == <<i, pc, verdict, trail>>

FmtOf(o) == IF o.fmt = "f64" THEN F64 ELSE F32

OutOK(s, o) ==
  IF o.kind # "value" THEN "panic"
  ELSE LET d == Declarative(s, o.specials) IN
       IF o.rest # d.rest THEN "wrong suffix"
       ELSE IF ~ResultOK(FmtOf(o), d, o.bits) THEN "wrong value"
       ELSE "ok"

Shape(d) ==
  IF d.special # "none" THEN d.special
  ELSE (IF d.int = <<>> THEN "" ELSE "I") \o (IF d.frac = <<>> THEN "" ELSE "F") \o
       (IF d.exp = 0 THEN "" ELSE IF d.exp \in {MinI32, MaxI32} THEN "Esat" ELSE "E")

Init == i \in 1..N /\ pc = "start" /\ verdict = "none" /\ trail = <<>>

JudgeRecord ==
  /\ pc = "start"
  /\ LET r == Recs[i]
         s == r.bytes
         js == [k \in 1..Len(r.outs) |-> OutOK(s, r.outs[k])]
         bad == {k \in 1..Len(js) : js[k] # "ok"}
         drift == Scan(s, TRUE) # Declarative(s, TRUE) \/ Scan(s, FALSE) # Declarative(s, FALSE)
     IN /\ verdict' = IF bad = {} THEN "ok" ELSE "impl_violates"
        /\ trail' = IF bad = {} THEN <<Shape(Declarative(s, TRUE)), Shape(Declarative(s, FALSE)), IF drift THEN "DRIFT" ELSE "conforms">>
                    ELSE <<ToJson([k \in 1..Len(js) |-> IF js[k] = "ok" THEN "" ELSE r.outs[k].copy \o ":" \o r.outs[k].fmt \o ":" \o js[k]])>>
  /\ pc' = "report" /\ UNCHANGED i

Finish ==
  /\ pc = "report"
  /\ PrintT("VP|" \o ToJson([id |-> Recs[i].id, verdict |-> verdict, trail |-> trail]))
  /\ pc' = "done" /\ UNCHANGED <<i, verdict, trail>>

Next == JudgeRecord \/ Finish
Spec == Init /\ [][Next]_vars
VerdictOK == verdict \in {"none", "ok"}
=============================================================================
