CONSTANTS
  LB = 15
  LBITS = 64
  CAP = 62
  Heap = TRUE
  Depth = 40
SPECIFICATION Spec
CHECK_DEADLOCK FALSE
