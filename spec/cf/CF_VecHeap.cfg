CONSTANTS
  LB = 15
  LBITS = 64
  CAP = 62
  Heap = TRUE
SPECIFICATION Spec
INVARIANT VerdictOK
CHECK_DEADLOCK FALSE
