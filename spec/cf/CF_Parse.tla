------------------------------ MODULE CF_Parse ------------------------------
(***************************************************************************)
(* Conformance of parse_float records against the specification.           *)
(* One behaviour per record: Init picks a record, the actions below judge  *)
(* it.  A record carries the input (run-length digit strings + exponent)   *)
(* and what the real code returned for it in each compiled configuration.  *)
(*                                                                         *)
(* Verdicts:  ok | impl_violates | input_invalid | oracle_indeterminate    *)
(* Only impl_violates is a property violation; the others are tool errors. *)
(***************************************************************************)
EXTENDS MinLex, Json, IOUtils

Recs == ndJsonDeserialize(IOEnv.VERIF_RECORDS)
N == Len(Recs)

\* which obligations are checked (set by the driver per property)
CheckValue  == IOEnv.VERIF_CHECK_VALUE = "1"     \* bits are the correctly rounded value (C01 C02 C03 C06 C07)
CheckAgree  == IOEnv.VERIF_CHECK_AGREE = "1"     \* all configurations return identical bits (C05)
CheckNoPanic == IOEnv.VERIF_CHECK_NOPANIC = "1"  \* outcome is a value (C04)
CheckAllocs == IOEnv.VERIF_CHECK_ALLOCS = "1"    \* allocs = 0 in configurations without alloc (C15)
CheckExpect == IOEnv.VERIF_CHECK_EXPECT = "1"    \* record carries "expect" bits that must be returned (C03)
CheckGarbage == IOEnv.VERIF_CHECK_GARBAGE = "1"  \* arbitrary bytes: outcome must be value or clean panic (C08)
CheckModel  == IOEnv.VERIF_CHECK_MODEL = "1"     \* run the algorithm model (MinLex) next to the implementation

VARIABLES i, pc, verdict, trail, ml
vars == <<i, pc, verdict, trail, ml>>

FmtOf(r) == IF r.fmt = "f64" THEN F64 ELSE F32

ValidInput(r) ==
  /\ SWellFormed(r.int) /\ SWellFormed(r.frac)
  /\ SAllDigits(r.int) /\ SAllDigits(r.frac)
  /\ (r.int # <<>> => SFirstElem(r.int) # 0)

HasAlloc(cfgname) == \E k \in 1..(Len(cfgname) - 4) : SubSeq(cfgname, k, k + 4) = "alloc"

\* all outputs of one record judged against the oracle (each distinct bit pattern once)
Judgements(r) ==
  LET F == FmtOf(r)
      dv == DecVal(r.int, r.frac, r.exp)
      distinct == {r.outs[k].bits : k \in {k \in 1..Len(r.outs) : r.outs[k].kind = "value"}}
      verdictOf == [b \in distinct |-> Judge(F, b, dv)]
  IN [k \in 1..Len(r.outs) |->
        IF r.outs[k].kind # "value" THEN "skip" ELSE verdictOf[r.outs[k].bits]]

Init == i \in 1..N /\ pc = "start" /\ verdict = "none" /\ trail = <<>> /\ ml = <<MLInit, MLInit>>

\* one step of the judgement pipeline: stay on course or stop with a verdict
Go(next, tag)   == pc' = next /\ verdict' = verdict /\ trail' = Append(trail, tag) /\ UNCHANGED <<i, ml>>
Stop(v, tag)    == pc' = "report" /\ verdict' = v /\ trail' = Append(trail, tag) /\ UNCHANGED <<i, ml>>

Validate ==
  /\ pc = "start"
  /\ IF CheckGarbage THEN Go("garbage", IF ValidInput(Recs[i]) THEN "bytes:valid" ELSE "bytes:garbage")
     ELSE IF ValidInput(Recs[i]) THEN Go("valid", "valid") ELSE Stop("input_invalid", "not a valid input")

(* C08.  Permitted outcomes for arbitrary bytes are {value, panic}; anything  *)
(* else (an abort, a sanitizer report, a Miri error) never reaches a record   *)
(* and is reported by the driver from the process status.  The first stage of *)
(* the model (parse_number with wrapping u8 / u64 arithmetic) is run on the   *)
(* garbage and compared with the hook's Number (DRIFT only).                  *)
JudgeGarbage ==
  /\ pc = "garbage"
  /\ LET r == Recs[i]
         okk == \A k \in 1..Len(r.outs) : r.outs[k].kind \in {"value", "panic"}
         n == ParseNumber(r.int, r.frac, r.exp)
         drift == \E k \in 1..Len(r.outs) :
                    /\ r.outs[k].path \notin {"unknown", "panic"}
                    /\ (r.outs[k].num.mant # n.mant \/ r.outs[k].num.exp # n.exp \/ r.outs[k].num.many # n.many)
         note == [lemire |-> n.tr \o (IF n.panic THEN <<"PN_CheckedPanic">> ELSE <<>>), bellerophon |-> <<>>, dbg |-> FALSE, limbs |-> 0, drift |-> drift]
     IN IF okk THEN /\ pc' = "report" /\ verdict' = "ok"
                    /\ trail' = trail \o <<IF \E k \in 1..Len(r.outs) : r.outs[k].kind = "panic" THEN "panicked cleanly" ELSE "returned", ToJson(note)>>
                    /\ UNCHANGED <<i, ml>>
        ELSE Stop("impl_violates", "outcome is neither a value nor a clean panic")


JudgeOutcome ==
  /\ pc = "valid"
  /\ LET r == Recs[i] IN
     IF CheckNoPanic /\ \E k \in 1..Len(r.outs) : r.outs[k].kind # "value"
     THEN Stop("impl_violates", "outcome is not a value (panic) on valid input")
     ELSE Go("outcome_ok", IF CheckNoPanic THEN "returned" ELSE "-")

JudgeValue ==
  /\ pc = "outcome_ok"
  /\ IF ~CheckValue THEN Go("value_ok", "-")
     ELSE LET r == Recs[i]  js == Judgements(r) IN
          IF \E k \in 1..Len(js) : js[k] = "wrong"
          THEN Stop("impl_violates", "not correctly rounded: " \o
                    ToJson([k \in 1..Len(js) |-> IF js[k] = "wrong" THEN r.outs[k].cfg ELSE ""]))
          ELSE IF \E k \in 1..Len(js) : js[k] = "indet" THEN Stop("oracle_indeterminate", "indet")
          ELSE Go("value_ok", "rounded")

(* C03.  The record carries the float x that was rendered ("expect") and the *)
(* kind of rendering.  The rendering itself is validated first: it must      *)
(* denote a value that rounds to x (and equal x exactly for "exact");        *)
(* otherwise the harness / formatter is at fault, not the parser.            *)
JudgeExpect ==
  /\ pc = "value_ok"
  /\ IF ~CheckExpect THEN Go("expect_ok", "-")
     ELSE LET r == Recs[i]
              F == FmtOf(r)
              dv == DecVal(r.int, r.frac, r.exp)
              dc == Decode(F, r.expect)
              rendering_ok == /\ Judge(F, r.expect, dv) = "ok"
                              /\ (r.render = "exact" =>
                                    IF dc.class = "zero" THEN dv.kind = "zero"
                                    ELSE dv.kind = "norm" /\ ~dv.tail /\ CmpV(dv.D, dv.E, dc.m, dc.e) = 0)
          IN IF ~rendering_ok THEN Stop("input_invalid", "rendering does not denote the float: " \o r.render)
             ELSE IF \E k \in 1..Len(r.outs) : r.outs[k].kind = "value" /\ r.outs[k].bits # r.expect
             THEN Stop("impl_violates", "does not parse back to the float that was rendered (" \o r.render \o ")")
             ELSE Go("expect_ok", "roundtrip:" \o r.render)

JudgeAgree ==
  /\ pc = "expect_ok"
  /\ LET r == Recs[i] IN
     IF CheckAgree /\ \E a, b \in 1..Len(r.outs) : r.outs[a].kind # r.outs[b].kind \/ r.outs[a].bits # r.outs[b].bits
     THEN Stop("impl_violates", "configurations disagree")
     ELSE Go("agree_ok", IF CheckAgree THEN "agree" ELSE "-")

JudgeAllocs ==
  /\ pc = "agree_ok"
  /\ LET r == Recs[i] IN
     IF CheckAllocs /\ \E k \in 1..Len(r.outs) : ~HasAlloc(r.outs[k].cfg) /\ r.outs[k].allocs # 0
     THEN Stop("impl_violates", "heap allocation without the alloc feature")
     ELSE /\ pc' = IF CheckModel THEN "model0" ELSE "report"
          /\ verdict' = IF CheckModel THEN verdict ELSE "ok"
          /\ trail' = Append(trail, IF CheckAllocs THEN "noalloc" ELSE "-") /\ UNCHANGED <<i, ml>>

\* ------------------------------------------------------------------------
\* The algorithm model next to the implementation.  Stage by stage MinLex is
\* advanced for both variants of the moderate path (ml[1]: Eisel-Lemire,
\* ml[2]: Bellerophon); at the end every observable the implementation
\* exposed (Number fields through the hook, path, moderate estimate, bits)
\* is compared with the model's.  A difference is DRIFT (a note); only a
\* model result that contradicts the oracle is an error of the model
\* ("spec_disagrees").  Neither is ever a property violation.
IsCompact(cfgname) == \E k \in 1..(Len(cfgname) - 6) : SubSeq(cfgname, k, k + 6) = "compact"

ModelStage(s, r, compact) ==
  LET F == FmtOf(r) IN
  IF s.pc = "start" THEN MLParseNum(s, r.int, r.frac, r.exp)
  ELSE IF s.pc = "number" THEN (IF MLFastEnabled(F, s) THEN MLFast(F, s) ELSE MLModerate(F, compact, s))
  ELSE IF s.pc = "declined" THEN MLSlow(F, s, r.int, r.frac)
  ELSE s

OutMatches(s, o) ==
  \/ o.path \in {"unknown", "panic"}
  \/ /\ o.num.mant = s.num.mant /\ o.num.exp = s.num.exp /\ o.num.many = s.num.many
     /\ o.path = s.path
     /\ (s.path # "fast" => (o.mod.mant = s.est.mant /\ o.mod.exp = s.est.exp))
     /\ (o.kind = "value" => o.bits = s.bits)

ModelStep ==
  /\ pc \in {"model0", "model1", "model2"}
  /\ ml' = [k \in 1..2 |-> ModelStage(ml[k], Recs[i], k = 2)]
  /\ pc' = IF pc = "model0" THEN "model1" ELSE IF pc = "model1" THEN "model2" ELSE "modelcmp"
  /\ UNCHANGED <<i, verdict, trail>>

ModelCompare ==
  /\ pc = "modelcmp"
  /\ LET r == Recs[i]
         F == FmtOf(r)
         dv == DecVal(r.int, r.frac, r.exp)
         okm == \A k \in 1..2 : Judge(F, ml[k].bits, dv) = "ok"
         drift == \E k \in 1..Len(r.outs) : ~OutMatches(ml[IF IsCompact(r.outs[k].cfg) THEN 2 ELSE 1], r.outs[k])
         note == [lemire |-> ml[1].tr, bellerophon |-> ml[2].tr, dbg |-> ml[1].dbg \/ ml[2].dbg,
                  limbs |-> Max2(ml[1].limbs, ml[2].limbs), drift |-> drift]
     IN /\ trail' = Append(trail, ToJson(note))
        /\ verdict' = IF okm THEN "ok" ELSE "spec_disagrees"
        /\ pc' = "report"
  /\ UNCHANGED <<i, ml>>

\* one line per record for the driver
Finish ==
  /\ pc = "report"
  /\ PrintT("VP|" \o ToJson([id |-> Recs[i].id, verdict |-> verdict, trail |-> trail]))
  /\ pc' = "done" /\ UNCHANGED <<i, verdict, trail, ml>>

Next == Validate \/ JudgeGarbage \/ JudgeOutcome \/ JudgeValue \/ JudgeExpect \/ JudgeAgree \/ JudgeAllocs
        \/ ModelStep \/ ModelCompare \/ Finish
Spec == Init /\ [][Next]_vars

VerdictOK == verdict \in {"none", "ok"}
=============================================================================
