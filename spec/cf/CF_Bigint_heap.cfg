CONSTANTS
  LB = 15
  LBITS = 64
  CAP = 62
  Heap = TRUE
  SmallStep = 27
  LargeStep = 135
  NoLargeStep = FALSE
SPECIFICATION Spec
INVARIANT VerdictOK
CHECK_DEADLOCK FALSE
