------------------------------ MODULE CF_Order ------------------------------
(***************************************************************************)
(* C09 (monotonic) and C10 (equal values, identical bits).                  *)
(* A record is a chain or a group of inputs with what the real code         *)
(* returned for each.  The claim made by the generator -- members ascend    *)
(* (chain) / denote the same real number (group) -- is re-derived here by   *)
(* exact comparison of the decimal values; a false claim is a tool error.   *)
(* The property: bits (as integers = IEEE order of non-negative floats)     *)
(* never descend along a chain / are identical in a group, in every         *)
(* configuration.  No rounding oracle is involved.                          *)
(***************************************************************************)
EXTENDS IEEE, Json, IOUtils

Recs == ndJsonDeserialize(IOEnv.VERIF_RECORDS)
N == Len(Recs)
TBig == 6000            \* chains carry digits thousands of places out: keep them all

VARIABLES i, pc, verdict, trail
vars == <<i, pc, verdict, trail>>

Valid(m) ==
  /\ SWellFormed(m.int) /\ SWellFormed(m.frac) /\ SAllDigits(m.int) /\ SAllDigits(m.frac)
  /\ (m.int # <<>> => SFirstElem(m.int) # 0)

\* sign(value(a) - value(b)); 2 = not comparable with the digits kept
CmpDec(a, b) ==
  LET rank(d) == CASE d.kind = "zero" -> 0 [] d.kind = "tiny" -> 1 [] d.kind = "norm" -> 2 [] d.kind = "huge" -> 3 IN
  IF a.kind # "norm" \/ b.kind # "norm" THEN
     (IF rank(a) < rank(b) THEN -1 ELSE IF rank(a) > rank(b) THEN 1 ELSE IF a.kind = "zero" THEN 0 ELSE 2)
  ELSE IF a.tail \/ b.tail THEN 2
  ELSE IF a.E >= b.E THEN Cmp(Pow10Mul(a.D, a.E - b.E), b.D)
  ELSE Cmp(a.D, Pow10Mul(b.D, b.E - a.E))

DV(m) == DecValT(m.int, m.frac, m.exp, TBig)

ClaimHolds(r) ==
  LET n == Len(r.members)
      dvs == [k \in 1..n |-> DV(r.members[k])]
      cs == [k \in 1..(n - 1) |-> CmpDec(dvs[k], dvs[k + 1])]
  IN IF \E k \in 1..(n - 1) : cs[k] = 2 THEN "incomparable"
     ELSE IF r.kind = "chain" THEN (IF \A k \in 1..(n - 1) : cs[k] <= 0 THEN "holds" ELSE "false")
     ELSE (IF \A k \in 1..(n - 1) : cs[k] = 0 THEN "holds" ELSE "false")

\* property on the bits, per configuration index c
BitsOK(r) ==
  LET n == Len(r.members)
      nc == Len(r.members[1].outs)
  IN \A c \in 1..nc :
       /\ \A k \in 1..n : r.members[k].outs[c].kind = "value"
       /\ \A k \in 1..(n - 1) :
            LET x == r.members[k].outs[c].bits  y == r.members[k + 1].outs[c].bits IN
            IF r.kind = "chain" THEN Cmp(x, y) <= 0 ELSE x = y

Init == i \in 1..N /\ pc = "start" /\ verdict = "none" /\ trail = <<>>

CheckClaim ==
  /\ pc = "start"
  /\ LET r == Recs[i] IN
     IF ~(\A k \in 1..Len(r.members) : Valid(r.members[k]))
     THEN pc' = "report" /\ verdict' = "input_invalid" /\ trail' = <<"invalid member">>
     ELSE LET c == ClaimHolds(r) IN
          IF c = "holds" THEN pc' = "claimed" /\ verdict' = verdict /\ trail' = <<r.kind, "claim verified">>
          ELSE pc' = "report" /\ verdict' = "input_invalid" /\ trail' = <<r.kind, "claim " \o c>>
  /\ UNCHANGED i

CheckBits ==
  /\ pc = "claimed"
  /\ IF BitsOK(Recs[i]) THEN verdict' = "ok" /\ trail' = Append(trail, "bits ordered")
     ELSE verdict' = "impl_violates" /\ trail' = Append(trail, "bits out of order / differ")
  /\ pc' = "report" /\ UNCHANGED i

Finish ==
  /\ pc = "report"
  /\ PrintT("VP|" \o ToJson([id |-> Recs[i].id, verdict |-> verdict, trail |-> trail]))
  /\ pc' = "done" /\ UNCHANGED <<i, verdict, trail>>

Next == CheckClaim \/ CheckBits \/ Finish
Spec == Init /\ [][Next]_vars
VerdictOK == verdict \in {"none", "ok"}
=============================================================================
