SPECIFICATION Spec
INVARIANT VerdictOK
CHECK_DEADLOCK FALSE
