----------------------------- MODULE CF_Bigint -----------------------------
(***************************************************************************)
(* C12: single big-integer operations observed from the real code (64-bit   *)
(* limbs, 62-limb stack capacity or heap) against arithmetic on naturals,    *)
(* and -- as a diagnostic -- against the limb-level algorithm model.         *)
(*   ok            : the returned contents denote exactly the natural result *)
(*   none          : stack: exactly when the result does not fit 62 limbs;   *)
(*                   heap: never (shl_limbs beyond its allocation excepted)  *)
(*   panic / wrong : violation                                               *)
(***************************************************************************)
EXTENDS BigintOps, Json, IOUtils

Recs == ndJsonDeserialize(IOEnv.VERIF_RECORDS)
N == Len(Recs)
ModelLimit == 400          \* run the limb-level model only when Len(x) * Len(y) is at most this

VARIABLES i, pc, verdict, trail
vars == <<i, pc, verdict, trail>>

\* natural-number meaning of an operation: [val, defined]
Meaning(r) ==
  LET X == ValueOfVec(r.x)  Y == ValueOfVec(r.y) IN
  CASE r.op = "small_add" -> Add(X, r.y[1])
    [] r.op = "small_mul" -> Mul(X, r.y[1])
    [] r.op = "large_add_from" -> Add(X, Shl(Y, LBITS * r.n))
    [] r.op \in {"long_mul", "large_mul", "mul_assign", "bigint_mul_assign"} -> Mul(X, Y)
    [] r.op = "large_add" -> Add(X, Y)
    [] r.op \in {"pow5", "bigint_pow5"} -> Pow5Mul(X, r.n)
    [] r.op \in {"shl", "bigint_pow2"} -> Shl(X, r.n)
    [] r.op = "shl_bits" -> Shl(X, r.n)
    [] r.op = "shl_limbs" -> Shl(X, LBITS * r.n)
    [] r.op = "bigint_pow10" -> Shl(Pow5Mul(X, r.n), r.n)
    [] r.op = "normalize" -> X
    [] r.op = "from_u64" -> r.y[1]
    [] OTHER -> X

\* the operator forms (`x *= y`) unwrap the Option: they report an overflow by panicking
Operator(op) == op \in {"mul_assign", "bigint_mul_assign"}
Mutating(op) == op \in {"small_add", "small_mul", "large_add_from", "large_add", "mul_assign", "bigint_mul_assign", "long_mul", "large_mul", "pow5", "bigint_pow5", "shl",
                        "bigint_pow2", "shl_bits", "shl_limbs", "bigint_pow10", "normalize", "from_u64"}

\* operands in the range the property names
InDomain(r) ==
  CASE r.op \in {"long_mul", "large_mul", "mul_assign", "bigint_mul_assign"} -> NonZeroNorm(r.x) /\ NonZeroNorm(r.y)
    [] r.op \in {"large_add_from", "large_add"} -> Normalized(r.x) /\ NonZeroNorm(r.y)
    [] r.op \in {"pow5", "bigint_pow5", "bigint_pow10", "bigint_pow2", "shl", "shl_bits", "shl_limbs"} -> NonZeroNorm(r.x)
    [] r.op \in {"hi64", "bit_length"} -> Normalized(r.x)
    [] r.op \in {"u32_hi64_1", "u32_hi64_2", "u32_hi64_3", "u64_hi64_1", "u64_hi64_2"} -> r.x # <<>> /\ r.x[1] # <<>>
    [] r.op = "compare" -> Normalized(r.x) /\ Normalized(r.y)
    [] OTHER -> TRUE

Judge1(r) ==
  LET o0 == r.res
      \* an operator's panic is its way of saying "none" (the contents are lost with it)
      o == IF Operator(r.op) /\ o0.r = "panic" THEN [o0 EXCEPT !.r = "none"] ELSE o0
      heap == r.backend = "heap"
      val == Meaning(r)
  IN IF o.r \in {"panic", "hang"} THEN "panicked"
     ELSE IF ~InDomain(r) THEN "out of domain"
     ELSE IF Mutating(r.op) THEN
        IF o.r = "ok" THEN (IF ValueOfVec(o.v) = val /\ (heap \/ Len(o.v) <= CAP) THEN "exact" ELSE "wrong value")
        ELSE \* none
             IF heap THEN (IF r.op \in {"shl", "shl_limbs", "bigint_pow2", "bigint_pow10"} /\ ~FitsCap(val) THEN "heap refused beyond its allocation (permitted)"
                           ELSE "heap back-end refused")
             ELSE IF ~FitsCap(val) THEN "overflow reported" ELSE "refused although the result fits"
     ELSE IF r.op = "compare" THEN (IF o.k = Cmp(ValueOfVec(r.x), ValueOfVec(r.y)) THEN "exact" ELSE "wrong value")
     ELSE IF r.op = "bit_length" THEN (IF o.k = BitLen(ValueOfVec(r.x)) THEN "exact" ELSE "wrong value")
     ELSE IF r.op \in {"u32_hi64_1", "u32_hi64_2", "u32_hi64_3", "u64_hi64_1", "u64_hi64_2"} THEN
        \* r.x = the limbs, most significant first (first limb non-zero)
        (LET w == IF r.op \in {"u64_hi64_1", "u64_hi64_2"} THEN 64 ELSE 32
             num == FoldLeft(LAMBDA acc, k: Add(Shl(acc, w), r.x[k]), <<>>, Idx(Len(r.x)))
             m == CASE r.op = "u32_hi64_1" -> U32Hi1(r.x[1]) [] r.op = "u32_hi64_2" -> U32Hi2(r.x[1], r.x[2])
                    [] r.op = "u32_hi64_3" -> U32Hi3(r.x[1], r.x[2], r.x[3]) [] r.op = "u64_hi64_1" -> U64Hi1(r.x[1])
                    [] r.op = "u64_hi64_2" -> U64Hi2(r.x[1], r.x[2])
         IN IF HiMeans(num, [hi |-> o.h, sticky |-> o.s]) /\ m.hi = o.h /\ m.sticky = o.s THEN "exact" ELSE "wrong value")
     ELSE IF r.op = "hi64" THEN
        (LET X == ValueOfVec(r.x)  bl == BitLen(X) IN
         IF X = <<>> THEN (IF o.h = <<>> /\ ~o.s THEN "exact" ELSE "wrong value")
         ELSE IF bl <= 64 THEN (IF o.h = Shl(X, 64 - bl) /\ ~o.s THEN "exact" ELSE "wrong value")
         ELSE (IF o.h = Shr(X, bl - 64) /\ o.s = (ModPow2(X, bl - 64) # <<>>) THEN "exact" ELSE "wrong value"))
     ELSE "exact"

\* over-capacity success on the stack must not happen either: a result with more than CAP limbs
Bad(j) == j \in {"panicked", "wrong value", "heap back-end refused", "refused although the result fits"}

\* the limb-level model's result for the record (diagnostic)
ModelOut(r) ==
  CASE r.op = "small_add" -> SmallAdd(r.x, r.y[1])
    [] r.op = "small_mul" -> SmallMul(r.x, r.y[1])
    [] r.op = "large_add_from" -> LargeAddFrom(r.x, r.y, r.n)
    [] r.op = "long_mul" -> LongMul(r.x, r.y)
    [] r.op \in {"large_mul", "mul_assign", "bigint_mul_assign"} -> LargeMul(r.x, r.y)
    [] r.op = "large_add" -> LargeAdd(r.x, r.y)
    [] r.op \in {"pow5", "bigint_pow5"} -> Pow(r.x, r.n)
    [] r.op \in {"shl", "bigint_pow2"} -> ShlVec(r.x, r.n)
    [] r.op = "shl_bits" -> ShlBits(r.x, r.n)
    [] r.op = "shl_limbs" -> ShlLimbs(r.x, r.n)
    [] r.op = "normalize" -> Ok(Normalize(r.x))
    [] r.op = "from_u64" -> Ok(FromU64(r.y[1]))
    [] OTHER -> [v |-> r.res.v, r |-> r.res.r]

Drift(r) ==
  IF ~Mutating(r.op) \/ r.op = "bigint_pow10" \/ r.res.r \in {"panic", "hang"} \/ Len(r.x) * Max2(Len(r.y), 1) > ModelLimit
     \/ (r.op \in {"pow5", "bigint_pow5"} /\ Len(r.x) * r.n > 6000) THEN "unmodelled"
  ELSE LET m == ModelOut(r) IN
       IF m.r = "maybe" THEN "conforms"
       ELSE IF Operator(r.op) /\ m.r = "none" /\ r.res.r = "panic" THEN "conforms"
       ELSE IF m.r # r.res.r THEN "DRIFT"
       ELSE IF m.r = "ok" /\ m.v # r.res.v THEN "DRIFT"
       ELSE "conforms"

\* ------------------------------------------------------------------ events
(* Which of the rare situations of the limb algorithms a record exercises,     *)
(* computed from the operands alone (a function of the specification, not of   *)
(* the implementation's answer).  The driver counts them over the corpus: an   *)
(* event that never occurs means the corresponding branch of the algorithm was *)
(* never exercised by the records that were validated.                         *)
AllOnes(x) == x = LimbMax
Events(r) ==
  LET nx == Len(r.x)  ny == Len(r.y)
      tag(c, t) == IF c THEN <<t>> ELSE <<>>
  IN
  CASE r.op = "small_add" ->
         LET rip == FoldLeft(LAMBDA acc, k: IF acc = k - 1 /\ (IF k = 1 THEN Cmp(Add(r.x[1], r.y[1]), Pow2(LBITS)) >= 0 ELSE AllOnes(r.x[k])) THEN k ELSE acc, 0, Idx(nx))
         IN tag(nx = 0, "sa:empty") \o tag(nx > 0 /\ rip = 0, "sa:no-carry") \o tag(rip > 0 /\ rip < nx, "sa:ripple-stops")
            \o tag(nx > 0 /\ rip = nx, "sa:carry-into-new-limb") \o tag(rip >= 3, "sa:ripple>=3") \o tag(r.y[1] = <<>>, "sa:zero-addend")
    [] r.op = "small_mul" ->
         tag(nx = 0, "sm:empty") \o tag(r.y[1] = <<>>, "sm:by-zero") \o tag(r.y[1] = <<1>>, "sm:by-one")
         \o tag(nx > 0 /\ BitLen(Mul(ValueOfVec(r.x), r.y[1])) > LBITS * nx, "sm:carry-into-new-limb")
         \o tag(nx > 0 /\ BitLen(Mul(ValueOfVec(r.x), r.y[1])) <= LBITS * nx /\ r.y[1] # <<>>, "sm:no-new-limb")
         \o tag(\E k \in 1..nx : r.x[k] = <<>>, "sm:zero-limb-inside")
    [] r.op \in {"large_add_from", "large_add"} ->
         LET st == IF r.op = "large_add" THEN 0 ELSE r.n
             sum == Add(ValueOfVec(r.x), Shl(ValueOfVec(r.y), LBITS * st))
             span == Max2(nx, ny + st)
         IN tag(ny > Max2(nx - st, 0), "laf:resize") \o tag(ny <= Max2(nx - st, 0), "laf:no-resize") \o tag(st > nx, "laf:gap-below-start")
            \o tag(BitLen(sum) > LBITS * span, "laf:final-carry-new-limb") \o tag(st = 0, "laf:start0") \o tag(st > 0, "laf:offset")
            \o tag(ny + st = nx /\ BitLen(sum) <= LBITS * span, "laf:same-top-no-carry")
    [] r.op \in {"long_mul", "large_mul", "mul_assign", "bigint_mul_assign"} ->
         tag(ny = 1, "mul:single-limb-y") \o tag(ny >= 2 /\ \E k \in 2..ny : r.y[k] = <<>>, "mul:zero-limb-in-y")
         \o tag(ny >= 1 /\ r.y[1] = <<>>, "mul:y0-zero") \o tag(nx >= 2 /\ \E k \in 1..nx : r.x[k] = <<>>, "mul:zero-limb-in-x")
         \o tag(nx + ny = CAP + 1, "mul:lengths-sum-cap+1") \o tag(nx + ny = CAP, "mul:lengths-sum-cap")
         \o tag(nx > 0 /\ ny > 0 /\ BitLen(Mul(ValueOfVec(r.x), ValueOfVec(r.y))) <= LBITS * (nx + ny - 1), "mul:product-one-limb-short")
         \o tag(nx = 0 \/ ny = 0, "mul:empty-operand")
    [] r.op \in {"pow5", "bigint_pow5", "bigint_pow10"} ->
         LET nl == IF NoLargeStep THEN 0 ELSE r.n \div LargeStep
             e1 == r.n - nl * LargeStep
         IN tag(r.n = 0, "pow:zero") \o tag(nl = 0, "pow:large0") \o tag(nl = 1, "pow:large1") \o tag(nl >= 2, "pow:large>=2")
            \o tag(e1 \div SmallStep = 0, "pow:small0") \o tag(e1 \div SmallStep >= 2, "pow:small>=2") \o tag(e1 % SmallStep = 0, "pow:no-remainder")
            \o tag(r.n > 0 /\ r.n % LargeStep = 0, "pow:exact-multiple-of-large") \o tag(nx = 1, "pow:single-limb-x")
    [] r.op \in {"shl", "bigint_pow2"} ->
         tag(r.n % LBITS = 0 /\ r.n > 0, "shl:whole-limbs") \o tag(r.n % LBITS # 0 /\ r.n < LBITS, "shl:bits-only") \o tag(r.n % LBITS # 0 /\ r.n >= LBITS, "shl:bits+limbs")
         \o tag(r.n = 0, "shl:zero") \o tag(nx > 0 /\ r.n % LBITS # 0 /\ BitLen(r.x[nx]) + (r.n % LBITS) > LBITS, "shl:carry-out-of-top")
    [] r.op = "shl_bits" -> tag(nx > 0 /\ BitLen(r.x[nx]) + r.n > LBITS, "shlb:carry-out") \o tag(nx > 0 /\ BitLen(r.x[nx]) + r.n <= LBITS, "shlb:no-carry")
    [] r.op = "shl_limbs" -> tag(r.n + nx > CAP, "shll:beyond-cap") \o tag(r.n + nx = CAP, "shll:exactly-cap") \o tag(nx = 0, "shll:empty")
    [] r.op = "hi64" ->
         tag(nx = 0, "hi:len0") \o tag(nx = 1, "hi:len1") \o tag(nx = 2, "hi:len2") \o tag(nx >= 3, "hi:len>=3")
         \o tag(nx >= 1 /\ BitLen(r.x[nx]) = LBITS, "hi:top-aligned")
         \o tag(nx >= 3 /\ (\E k \in 1..(nx - 2) : r.x[k] # <<>>) /\ (LET ls == LBITS - BitLen(r.x[nx]) IN ModPow2(Shl(r.x[nx - 1], ls), LBITS) = <<>>), "hi:sticky-only-deep")
         \o tag(nx >= 3 /\ (\A k \in 1..(nx - 2) : r.x[k] = <<>>), "hi:nothing-deep")
    [] r.op = "compare" ->
         tag(nx # ny, "cmp:lengths-differ") \o tag(nx = ny /\ r.x = r.y, "cmp:equal")
         \o tag(nx = ny /\ nx > 0 /\ r.x # r.y /\ r.x[nx] # r.y[nx], "cmp:top-limb-differs")
         \o tag(nx = ny /\ nx > 1 /\ r.x # r.y /\ r.x[nx] = r.y[nx], "cmp:deeper-limb-differs")
    [] r.op = "normalize" -> tag(Normalized(r.x), "norm:nothing") \o tag(~Normalized(r.x) /\ nx >= 2 /\ r.x[nx - 1] = <<>>, "norm:two-or-more") \o tag(\A k \in 1..nx : r.x[k] = <<>>, "norm:to-empty")
    [] OTHER -> <<>>

Init == i \in 1..N /\ pc = "start" /\ verdict = "none" /\ trail = <<>>

JudgeOp ==
  /\ pc = "start"
  /\ LET r == Recs[i]  j == Judge1(r) IN
     /\ verdict' = IF Bad(j) THEN "impl_violates" ELSE IF j = "out of domain" THEN "input_invalid" ELSE "ok"
     /\ trail' = <<r.op, j, IF Bad(j) THEN "-" ELSE Drift(r)>>
  /\ pc' = "report" /\ UNCHANGED i

Finish ==
  /\ pc = "report"
  /\ PrintT("VP|" \o ToJson([id |-> Recs[i].id, verdict |-> verdict, trail |-> trail, ev |-> Events(Recs[i])]))
  /\ pc' = "done" /\ UNCHANGED <<i, verdict, trail>>

Next == JudgeOp \/ Finish
Spec == Init /\ [][Next]_vars
VerdictOK == verdict \in {"none", "ok"}
=============================================================================
