------------------------------- MODULE Number -------------------------------
(***************************************************************************)
(* src/parse.rs parse_number / parse_number_fast and src/number.rs          *)
(* is_fast_path / try_fast_path, over run-length digit strings.             *)
(* Element values are (byte - 48) mod 256: 0..9 for digits, 10..207 for     *)
(* bytes above '9', 208..255 for bytes below '0' (the u8 subtraction        *)
(* wraps in release and panics in a checked build).                         *)
(***************************************************************************)
EXTENDS Mach, Tables

\* a byte below b'0' somewhere: `c - b'0'` underflows
Underflows(S) == \E j \in 1..Len(S) : \E k \in 1..Len(S[j].d) : S[j].d[k] >= 208

\* true (unwrapped) value of a short element sequence read as decimal digits
ValueOf(ds) == FromDigits(ds)

\* parse_number -> [mant, exp, many, tr, panic]
\*   panic: a checked build (debug assertions + overflow checks) panics here
ParseNumber(int, frac, exp) ==
  LET il == SLen(int)  fl == SLen(frac)
      under == Underflows(int) \/ Underflows(frac)       \* the fast pass visits every byte
  IN IF il + fl <= 19 THEN
        \* parse_number_fast: wrapping arithmetic
        [mant |-> WrapU64(ValueOf(SFirst(int \o frac, 19))), exp |-> SatSubI32(exp, fl), many |-> FALSE,
         tr |-> <<"PN_FastPass">>, panic |-> under]
     ELSE IF il >= 20 THEN
        LET v == ValueOf(SFirst(int, 19)) IN
        [mant |-> WrapU64(v), exp |-> SatAddI32(exp, IntoI32(il - 19)), many |-> TRUE,
         tr |-> <<"PN_IntTruncate">>, panic |-> under \/ ~IsU64(v)]
     ELSE
        LET z == IF il = 0 THEN SLeadingZeros(frac) ELSE 0      \* skipped leading fraction zeros
            nsig == il + (fl - z)
            idig == SFirst(int, 19)
        IN IF nsig >= 20 THEN
              LET take == 19 - il
                  v == ValueOf(idig \o SSlice(frac, z + 1, z + take))
              IN [mant |-> WrapU64(v), exp |-> SatSubI32(exp, z + take), many |-> TRUE,
                  tr |-> <<"PN_FracTruncate">>, panic |-> under \/ ~IsU64(v)]
           ELSE
              LET v == ValueOf(idig \o SSlice(frac, z + 1, fl))
              IN [mant |-> WrapU64(v), exp |-> SatSubI32(exp, fl), many |-> FALSE,
                  tr |-> <<IF z = fl THEN "PN_AllZeroFrac" ELSE "PN_SkipFracZeros">>, panic |-> under \/ ~IsU64(v)]

\* ------------------------------------------------------------ fast path
MaxExpFast(F) == Consts(F).maxfast
MaxExpDisguised(F) == Consts(F).maxdisg
MaxMantFast(F) == Pow2(F.mbits + 1)

IsFastPath(F, num) ==
  /\ -MaxExpFast(F) <= num.exp /\ num.exp <= MaxExpDisguised(F)
  /\ Cmp(num.mant, MaxMantFast(F)) <= 0
  /\ ~num.many

(* try_fast_path -> [some, bits, tr].  The native multiply / divide of two  *)
(* exactly representable operands is, by IEEE 754, the correctly rounded    *)
(* product / quotient; exactness of the power operand is C14's business.    *)
TryFastPath(F, num) ==
  IF ~IsFastPath(F, num) THEN [some |-> FALSE, bits |-> <<>>, tr |-> <<"FP_NotFast">>]
  ELSE IF num.exp <= MaxExpFast(F) THEN
     [some |-> TRUE, bits |-> RN(F, DecOfWQ(num.mant, num.exp)),
      tr |-> <<IF num.exp < 0 THEN "FP_Div" ELSE "FP_Mul">>]
  ELSE LET shift == num.exp - MaxExpFast(F)
           m2 == Mul(num.mant, Pow10(shift))
       IN IF ~IsU64(m2) THEN [some |-> FALSE, bits |-> <<>>, tr |-> <<"FP_DisguisedOverflow">>]
          ELSE IF Cmp(m2, MaxMantFast(F)) > 0 THEN [some |-> FALSE, bits |-> <<>>, tr |-> <<"FP_DisguisedTooBig">>]
          ELSE [some |-> TRUE, bits |-> RN(F, DecOfWQ(m2, MaxExpFast(F))), tr |-> <<"FP_Disguised">>]
=============================================================================
