------------------------------ MODULE SlowLimbs ------------------------------
(***************************************************************************)
(* src/slow.rs once more, this time on the LIMB-LEVEL big integers of       *)
(* BigintOps.tla (64-bit limbs, 62-limb stack capacity): the digit chunks of *)
(* parse_mantissa fed through small_mul / small_add, the stepped powers of   *)
(* five, the bit and limb shifts, hi64 + bit_length, and the limb-wise       *)
(* comparison of negative_digit_comp.  MC_SlowLimbs checks that this         *)
(* composition refines the value-level Slow.tla (same result, no operation   *)
(* refuses, never more than 62 limbs) on every slow-path input of a small    *)
(* float format.                                                             *)
(***************************************************************************)
EXTENDS BigintOps, Slow

Step == 19                          \* digits per 64-bit limb chunk
MaxNative10 == Pow10(Step)

\* fold the expanded digit sequence ds into a limb vector by chunks of `Step` digits:
\* result = result * 10^k + chunk  (add_temporary!)
AddChunk(acc, chunk) ==
  IF acc.r = "none" THEN acc
  ELSE LET m == SmallMul(acc.v, Pow10(Len(chunk))) IN
       IF m.r = "none" THEN m ELSE SmallAdd(m.v, FromDigits(chunk))

ChunksOf(ds) ==
  LET n == Len(ds)  k == (n + Step - 1) \div Step
  IN [j \in 1..k |-> SubSeq(ds, (j - 1) * Step + 1, Min2(j * Step, n))]

DigitsToVec(ds) ==
  LET ch == ChunksOf(ds) IN
  FoldLeft(LAMBDA acc, j: AddChunk(acc, ch[j]), Ok(<<>>), Idx(Len(ch)))

\* parse_mantissa at the limb level -> [v, r, count]
ParseMantissaLimbs(int, frac, maxd) ==
  LET il == SLen(int)  fl == SLen(frac)
      z == IF il = 0 THEN SLeadingZeros(frac) ELSE 0
      all == int \o frac
      n == il + fl - z
  IN IF n <= maxd THEN
        LET d == DigitsToVec(SSlice(all, z + 1, z + n)) IN [v |-> d.v, r |-> d.r, count |-> n]
     ELSE LET d == DigitsToVec(SSlice(all, z + 1, z + maxd)) IN
          IF d.r = "none" THEN [v |-> d.v, r |-> "none", count |-> maxd]
          ELSE IF SAnyNonZeroAfter(all, z + maxd)
          THEN \* round_up_truncated!: result * 10 + 1
               LET m == SmallMul(d.v, <<10>>)
                   a == IF m.r = "none" THEN m ELSE SmallAdd(m.v, <<1>>)
               IN [v |-> a.v, r |-> a.r, count |-> maxd + 1]
          ELSE [v |-> d.v, r |-> "ok", count |-> maxd]

\* Bigint::pow(10, e): pow(5^e) then shl(e)
Pow10Vec(x, e) ==
  LET p == Pow(x, e) IN IF p.r = "none" THEN p ELSE ShlVec(p.v, e)

\* positive_digit_comp on limbs -> [mant, exp, r, limbs]
PositiveLimbs(F, big, e10) ==
  LET p == Pow10Vec(big, e10) IN
  IF p.r # "ok" THEN [mant |-> <<>>, exp |-> 0, r |-> "none", limbs |-> Len(p.v)]
  ELSE LET h == Hi64Vec(p.v)
           fp == [mant |-> h.hi, exp |-> BitLengthVec(p.v) - 64 + ExpBias(F)]
           rr == Round(F, fp, LAMBDA odd, half, above: above \/ (half /\ h.sticky) \/ (odd /\ half))
       IN [mant |-> rr.mant, exp |-> rr.exp, r |-> "ok", limbs |-> Len(p.v)]

\* negative_digit_comp on limbs
NegativeLimbs(F, big, est, e10) ==
  LET b0 == RoundDown(F, est)
      bbits == ExtendedToFloat(F, b0)
      th == BHOf(F, bbits)
      theor0 == FromU64(th.mant)
      binexp == th.exp - e10
      t1 == Pow(theor0, -e10)
      t2 == IF t1.r = "none" THEN t1 ELSE IF binexp > 0 THEN ShlVec(t1.v, binexp) ELSE t1
      r2 == IF binexp < 0 THEN ShlVec(big, -binexp) ELSE Ok(big)
  IN IF t2.r # "ok" \/ r2.r # "ok" THEN [mant |-> <<>>, exp |-> 0, r |-> "none", limbs |-> Max2(Len(t2.v), Len(r2.v))]
     ELSE LET ord == CompareVec(r2.v, t2.v)
              rr == Round(F, est, LAMBDA odd, half, above: ord > 0 \/ (ord = 0 /\ odd))
          IN [mant |-> rr.mant, exp |-> rr.exp, r |-> "ok", limbs |-> Max2(Len(t2.v), Len(r2.v))]

SlowPathLimbs(F, num, est, int, frac) ==
  LET pm == ParseMantissaLimbs(int, frac, MaxDigits(F))
      e10 == SciExp(num) + 1 - pm.count
  IN IF pm.r # "ok" THEN [mant |-> <<>>, exp |-> 0, r |-> "none", limbs |-> Len(pm.v)]
     ELSE IF e10 >= 0 THEN PositiveLimbs(F, pm.v, e10) ELSE NegativeLimbs(F, pm.v, est, e10)
=============================================================================
