------------------------------- MODULE Consts -------------------------------
(***************************************************************************)
(* Per-format constants of src/num.rs (f64, f32) and their analogues for    *)
(* the small model-checking formats.  They are literals here for speed;     *)
(* MC_Consts checks each one against the formula that defines it.           *)
(*   maxfast   MAX_EXPONENT_FAST_PATH            largest k with 5^k < 2^p   *)
(*   maxdisg   MAX_EXPONENT_DISGUISED_FAST_PATH  maxfast + largest k with 10^k < 2^p *)
(*   small10   SMALLEST_POWER_OF_TEN   w*10^q rounds to 0 for all w < 2^64 when q < small10 *)
(*   large10   LARGEST_POWER_OF_TEN    w*10^q is infinite for all w >= 1 when q > large10   *)
(*   tiemin/tiemax  MIN/MAX_EXPONENT_ROUND_TO_EVEN                          *)
(*   maxdigits MAX_DIGITS: no rounding boundary has more significant digits      *)
(***************************************************************************)
EXTENDS IEEE

Consts(F) ==
  CASE F = F64  -> [maxfast |-> 22, maxdisg |-> 37, small10 |-> -342, large10 |-> 308, tiemin |-> -4,  tiemax |-> 23, maxdigits |-> 769]
    [] F = F32  -> [maxfast |-> 10, maxdisg |-> 17, small10 |-> -65,  large10 |-> 38,  tiemin |-> -17, tiemax |-> 10, maxdigits |-> 114]
    [] F = BF16 -> [maxfast |-> 3,  maxdisg |-> 5,  small10 |-> -65,  large10 |-> 38,  tiemin |-> -24, tiemax |-> 3,  maxdigits |-> 98]
    [] F = F10  -> [maxfast |-> 1,  maxdisg |-> 2,  small10 |-> -30,  large10 |-> 9,   tiemin |-> -25, tiemax |-> 2,  maxdigits |-> 27]

\* ---- the defining formulas (evaluated by MC_Consts only)
DefMaxFast(F) == CHOOSE k \in 0..30 : BitLen(Pow5(k)) <= Prec(F) /\ BitLen(Pow5(k + 1)) > Prec(F)
DefMaxDisg(F) == DefMaxFast(F) + (CHOOSE k \in 0..20 : BitLen(Pow10(k)) <= Prec(F) /\ BitLen(Pow10(k + 1)) > Prec(F))
\* smallest q such that (2^64 - 1) * 10^q still exceeds half the least subnormal
DefSmall10(F) == CHOOSE q \in -400..0 :
                   /\ CmpV(Sub(Pow2(64), <<1>>), q, <<1>>, ETiny(F) - 1) > 0
                   /\ CmpV(Sub(Pow2(64), <<1>>), q - 1, <<1>>, ETiny(F) - 1) <= 0
\* largest q such that 1 * 10^q is below the overflow threshold
DefLarge10(F) == CHOOSE q \in 0..400 :
                   /\ CmpV(<<1>>, q, Sub(Pow2(Prec(F) + 1), <<1>>), EMax(F) - Prec(F)) < 0
                   /\ CmpV(<<1>>, q + 1, Sub(Pow2(Prec(F) + 1), <<1>>), EMax(F) - Prec(F)) >= 0
\* 5^-q < 2^(64 - p)   and   5^q <= 2^(p+1)
DefTieMin(F) == 0 - (CHOOSE k \in 0..40 : BitLen(Pow5(k)) <= 64 - Prec(F) /\ BitLen(Pow5(k + 1)) > 64 - Prec(F))
DefTieMax(F) == CHOOSE k \in 0..40 : Cmp(Pow5(k), Pow2(Prec(F) + 1)) <= 0 /\ Cmp(Pow5(k + 1), Pow2(Prec(F) + 1)) > 0
\* significant digits of the midpoint just above the largest subnormal-binade float
\* ((2^(p+1) - 1) * 2^(etiny - 1)), which has the longest expansion of all boundaries
DefMaxDigits(F) == Len(ToDigits(Pow5Mul(Sub(Pow2(Prec(F) + 1), <<1>>), 1 - ETiny(F))))
=============================================================================
