------------------------------- MODULE MinLex -------------------------------
(***************************************************************************)
(* parse_float as a state machine: one action per pipeline stage.           *)
(*                                                                         *)
(*   start --ParseNum--> number --FastPath--> done                          *)
(*                          |--Moderate--> done            (definite)       *)
(*                          |--Moderate--> declined --Slow--> done          *)
(*                                                                         *)
(* The input (format, digit strings, exponent) and the build configuration  *)
(* (compact: Bellerophon instead of Eisel-Lemire) are fixed per behaviour   *)
(* by whoever instantiates the module (MC_Parse enumerates inputs, CF_Parse *)
(* takes them from implementation records).                                 *)
(***************************************************************************)
EXTENDS Number, Lemire, Bellerophon, Slow

\* the machine state as one record, so that users can embed it
MLInit == [pc |-> "start", num |-> [mant |-> <<>>, exp |-> 0, many |-> FALSE],
           est |-> [mant |-> <<>>, exp |-> 0], bits |-> <<>>, path |-> "none",
           tr |-> <<>>, dbg |-> FALSE, limbs |-> 0]

MLParseNum(s, int, frac, exp) ==
  LET n == ParseNumber(int, frac, exp)
  IN [s EXCEPT !.pc = "number", !.num = [mant |-> n.mant, exp |-> n.exp, many |-> n.many],
               !.tr = s.tr \o n.tr, !.dbg = s.dbg \/ n.panic]

MLFastEnabled(F, s) == s.pc = "number" /\ TryFastPath(F, s.num).some
MLFast(F, s) ==
  LET f == TryFastPath(F, s.num)
  IN [s EXCEPT !.pc = "done", !.bits = f.bits, !.path = "fast", !.tr = s.tr \o f.tr]

MLModerateEnabled(F, s) == s.pc = "number" /\ ~TryFastPath(F, s.num).some
MLModerate(F, compact, s) ==
  LET f == TryFastPath(F, s.num)
      m == IF compact THEN BellerophonPath(F, s.num) ELSE LemirePath(F, s.num)
      fp == [mant |-> m.mant, exp |-> m.exp]
  IN IF m.valid
     THEN [s EXCEPT !.pc = "done", !.est = fp, !.bits = ExtendedToFloat(F, fp), !.path = "moderate",
                    !.tr = s.tr \o f.tr \o m.tr, !.dbg = s.dbg \/ m.dbg]
     ELSE [s EXCEPT !.pc = "declined", !.est = fp, !.tr = s.tr \o f.tr \o m.tr, !.dbg = s.dbg \/ m.dbg]

MLSlow(F, s, int, frac) ==
  LET r == SlowPath(F, s.num, s.est, int, frac)
  IN [s EXCEPT !.pc = "done", !.bits = ExtendedToFloat(F, [mant |-> r.mant, exp |-> r.exp]), !.path = "slow",
               !.tr = s.tr \o r.tr, !.dbg = s.dbg \/ r.dbg, !.limbs = r.limbs]

\* the whole pipeline as a function (used where only the result matters)
MLRun(F, compact, int, frac, exp) ==
  LET s1 == MLParseNum(MLInit, int, frac, exp) IN
  IF TryFastPath(F, s1.num).some THEN MLFast(F, s1)
  ELSE LET s2 == MLModerate(F, compact, s1) IN
       IF s2.pc = "done" THEN s2 ELSE MLSlow(F, s2, int, frac)
=============================================================================
