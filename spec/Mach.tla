-------------------------------- MODULE Mach --------------------------------
(***************************************************************************)
(* Machine-integer semantics as the code uses them.  u64 values are        *)
(* BigNats below 2^64; i32 values are TLC integers, and every helper is    *)
(* written so that TLC's own 32-bit arithmetic never overflows.            *)
(***************************************************************************)
EXTENDS IEEE

MinI32 == -2147483647 - 1
MaxI32 == 2147483647

U64Max == Sub(Pow2(64), <<1>>)
IsU64(x) == BitLen(x) <= 64

WrapU64(x) == ModPow2(x, 64)
WrapAdd64(a, b) == ModPow2(Add(a, b), 64)
WrapSub64(a, b) == IF Cmp(a, b) >= 0 THEN Sub(a, b) ELSE Sub(Add(a, Pow2(64)), b)   \* a, b < 2^64
WrapMul64(a, b) == ModPow2(Mul(a, b), 64)
AddOvf64(a, b) == BitLen(Add(a, b)) > 64          \* would `a + b` trip an overflow check?
MulOvf64(a, b) == BitLen(Mul(a, b)) > 64

Lz64(w) == 64 - BitLen(w)                          \* leading_zeros of a u64 (64 for 0)
Shl64(w, n) == ModPow2(Shl(w, n), 64)              \* w << n, n < 64

\* i32 saturating arithmetic (a any i32, b >= 0 small or any i32)
SatSubI32(a, b) ==      \* a - b, b >= 0
  IF a >= 0 THEN a - b ELSE IF b > (a - MinI32) THEN MinI32 ELSE a - b
SatAddI32(a, b) ==      \* a + b, b >= 0
  IF a <= 0 THEN a + b ELSE IF b > MaxI32 - a THEN MaxI32 ELSE a + b
\* usize -> i32 without overflow (parse.rs into_i32); counts here are < 2^31 anyway
IntoI32(n) == IF n > MaxI32 THEN MaxI32 ELSE n
=============================================================================
