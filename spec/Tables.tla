------------------------------- MODULE Tables -------------------------------
(***************************************************************************)
(* The power-of-ten / power-of-five constants the algorithms consume, by    *)
(* definition.  Small ones are computed; the 128-bit and 64-bit truncated   *)
(* significands come from TablesData and are characterised here by          *)
(* predicates that need multiplication only (checked for every entry by     *)
(* MC_Tables).                                                              *)
(***************************************************************************)
EXTENDS Consts, TablesData

\* ------------------------------------------------------------ exact powers
SmallIntPow5(k)  == Pow5(k)           \* k in 0..27, all < 2^64
SmallIntPow10(k) == Pow10(k)          \* k in 0..19, all < 2^64
LargePow5        == Pow5(135)
LargePow5Step    == 135

\* bit pattern of the float 10^k; exact iff 5^k < 2^p
Pow10Float(F, k) == RN(F, DecOfWQ(<<1>>, k))
Pow10Exact(F, k) == BitLen(Pow5(k)) <= Prec(F)
MaxExactPow10(F) == IF F = F64 THEN 22 ELSE IF F = F32 THEN 10 ELSE 0

\* --------------------------------------------- Eisel-Lemire 128-bit table
P5Min == -342
P5Max == 308
P5(q) == P5Data[q + 343]
P5Hi(q) == Shr(P5(q), 64)
P5Lo(q) == ModPow2(P5(q), 64)

\* c is the table entry for 5^q
P5Holds(q, c) ==
  /\ BitLen(c) = 128
  /\ IF q >= 0 THEN
        LET p == Pow5(q)  bl == BitLen(p) IN
        IF bl <= 128 THEN c = Shl(p, 128 - bl) ELSE c = Shr(p, bl - 128)
     ELSE
        LET p == Pow5(-q)
            z == BitLen(p)                 \* smallest z with 2^z >= p (p odd > 1)
        IN IF q >= -27 THEN
              \* c = floor(2^(z+127) / p) + 1
              LET b == z + 127  cm == Sub(c, <<1>>) IN
              /\ Cmp(Mul(cm, p), Pow2(b)) <= 0
              /\ Cmp(Pow2(b), Mul(c, p)) < 0
           ELSE
              \* c = floor(X / 2^t), X = floor(2^b / p) + 1, b = 2z + 128, t = z + 1
              LET b == 2 * z + 128  t == z + 1
                  lo == Sub(Shl(c, t), <<1>>)                 \* lo <= floor(2^b/p)
                  hi == Sub(Shl(Add(c, <<1>>), t), <<1>>)     \* floor(2^b/p) < hi
              IN /\ Cmp(Mul(lo, p), Pow2(b)) <= 0
                 /\ Cmp(Pow2(b), Mul(hi, p)) < 0

\* --------------------------------------------------- Bellerophon tables
BStep == 10
BBias == 350
BSmall(i) == BSmallData[i + 1]           \* i in 0..9
BLarge(j) == BLargeData[j + 1]           \* j in 0..65
BSmallInt(i) == Pow10(i)

\* c is the truncated, normalised 64-bit significand of 10^k
Top64Holds(k, c) ==
  /\ BitLen(c) = 64
  /\ IF k >= 0 THEN
        LET v == Pow10(k)  bl == BitLen(v) IN
        IF bl <= 64 THEN c = Shl(v, 64 - bl) ELSE c = Shr(v, bl - 64)
     ELSE
        \* c = floor(2^s / 10^-k) for the s that makes it a 64-bit number
        LET p == Pow10(-k)
            s == 63 + BitLen(p)
            ok(ss) == /\ Cmp(Mul(c, p), Pow2(ss)) <= 0
                      /\ Cmp(Pow2(ss), Mul(Add(c, <<1>>), p)) < 0
        IN ok(s) \/ ok(s - 1)

\* binary exponent attached to a power of ten by the log2 multiplier:
\* 10^k = mant * 2^(Log2Pow10(k) - 63) with mant in [2^63, 2^64)
Log2Pow10(k) == (217706 * k) \div 65536          \* TLA+ \div is floor, like >> on i64
Log2Holds(k) ==
  IF k >= 0 THEN BitLen(Pow10(k)) - 1 = Log2Pow10(k)
  ELSE \* 10^k in [2^e, 2^(e+1))  <=>  2^-(e+1) < 10^-k <= 2^-e
       LET e == Log2Pow10(k)  p == Pow10(-k) IN
       Cmp(Pow2(-e - 1), p) < 0 /\ Cmp(p, Pow2(-e)) <= 0
=============================================================================
