----------------------------- MODULE Bellerophon -----------------------------
(***************************************************************************)
(* src/bellerophon.rs: Clinger's Bellerophon as the moderate path of        *)
(* compact builds.  64-bit extended floats, error units of 1/8 ulp.         *)
(* Results as in Lemire: [mant, exp, valid, tr, dbg].                       *)
(***************************************************************************)
EXTENDS Rounding, Tables

ErrorScale == 8
ErrorHalfScale == 4

GetSmall(i) == [mant |-> BSmall(i), exp |-> (1 - 64) + Log2Pow10(i)]
GetLarge(j) == [mant |-> BLarge(j), exp |-> (1 - 64) + Log2Pow10(j * BStep - BBias)]

\* normalize(fp) -> [fp, shift]
Normalize(fp) ==
  IF fp.mant = <<>> THEN [fp |-> fp, shift |-> 0]
  ELSE LET s == Lz64(fp.mant) IN [fp |-> [mant |-> Shl(fp.mant, s), exp |-> fp.exp - s], shift |-> s]

\* mul(x, y): 64x64 -> top 64 bits with rounding of the low half; dbg = debug_assert on operands
MulFp(x, y) ==
  LET x1 == Shr(x.mant, 32)  x0 == ModPow2(x.mant, 32)
      y1 == Shr(y.mant, 32)  y0 == ModPow2(y.mant, 32)
      x1y0 == Mul(x1, y0)  x0y1 == Mul(x0, y1)  x0y0 == Mul(x0, y0)  x1y1 == Mul(x1, y1)
      tmp == Add(Add(Add(ModPow2(x1y0, 32), ModPow2(x0y1, 32)), Shr(x0y0, 32)), Pow2(31))
  IN [mant |-> Add(Add(Add(x1y1, Shr(x1y0, 32)), Shr(x0y1, 32)), Shr(tmp, 32)),
      exp |-> x.exp + y.exp + 64,
      dbg |-> x1 = <<>> \/ y1 = <<>>]

\* error_is_accurate(errors, fp) -> [ok, dbg]
ErrorIsAccurate(F, errors, fp) ==
  LET ms == MantissaShift(F)
      extrabits == IF fp.exp <= -ms THEN 1 - fp.exp ELSE ms
      e == FromInt(errors)
  IN IF extrabits > 64 THEN [ok |-> ~AddOvf64(fp.mant, e), dbg |-> fp.exp < -64]
     ELSE LET extra == ModPow2(fp.mant, extrabits)
              half == LowerNHalfway(extrabits)
              cmp1 == Lt(WrapSub64(half, e), extra)
              cmp2 == Lt(extra, WrapAdd64(half, e))
          IN [ok |-> ~(cmp1 /\ cmp2), dbg |-> fp.exp < -64]

BZero(t) == [mant |-> <<>>, exp |-> 0, valid |-> TRUE, tr |-> t, dbg |-> FALSE]
BInf(F, t) == [mant |-> <<>>, exp |-> InfinitePower(F), valid |-> TRUE, tr |-> t, dbg |-> FALSE]

\* bellerophon_impl(num, force_error)
BellImpl(F, w, q, many, force) ==
  IF w = <<>> \/ q <= -4096 THEN BZero(<<"B_ShortZero">>)
  ELSE IF q >= 4096 THEN BInf(F, <<"B_ShortInf">>)
  ELSE
  LET ex == q + BBias
      \* Rust % and / truncate toward zero; for ex < 0 the result is discarded below
      si == IF ex >= 0 THEN ex % BStep ELSE 0
      li == IF ex >= 0 THEN ex \div BStep ELSE 0
  IN IF ex < 0 THEN BZero(<<"B_IndexZero">>)
     ELSE IF li >= 66 THEN BInf(F, <<"B_IndexInf">>)
     ELSE
     LET e0 == IF many THEN ErrorHalfScale ELSE 0
         prod == Mul(w, BSmallInt(si))
         ovf == BitLen(prod) > 64
         n0 == Normalize([mant |-> w, exp |-> 0]).fp
         sm == MulFp(n0, GetSmall(si))
         fp1 == IF ovf THEN [mant |-> sm.mant, exp |-> sm.exp]
                ELSE Normalize([mant |-> prod, exp |-> 0]).fp
         e1 == IF ovf THEN e0 + ErrorHalfScale ELSE e0
         lg == MulFp(fp1, GetLarge(li))
         e2 == (IF e1 > 0 THEN e1 + 1 ELSE e1) + ErrorHalfScale
         nz == Normalize([mant |-> lg.mant, exp |-> lg.exp])
         e3 == e2 * (2 ^ nz.shift)                  \* errors <<= shift  (shift is 0 or 1 here)
         fp3 == [mant |-> nz.fp.mant, exp |-> nz.fp.exp + ExpBias(F)]
         t0 == <<IF ovf THEN "B_SmallMul" ELSE "B_SmallIntExact", "B_LargeMul">>
         dbg0 == (ovf /\ sm.dbg) \/ lg.dbg
     IN IF -fp3.exp + 1 > 65 THEN [BZero(t0 \o <<"B_LiteralZeroEarly">>) EXCEPT !.dbg = dbg0]
        ELSE LET acc == ErrorIsAccurate(F, e3, fp3) IN
             IF force \/ ~acc.ok
             THEN [mant |-> fp3.mant, exp |-> fp3.exp, valid |-> FALSE,
                   tr |-> t0 \o <<IF force THEN "B_ForcedDecline" ELSE "B_Decline">>, dbg |-> dbg0 \/ acc.dbg]
             ELSE IF -fp3.exp + 1 = 65 THEN [BZero(t0 \o <<"B_LiteralZeroLate">>) EXCEPT !.dbg = dbg0 \/ acc.dbg]
             ELSE LET r == RoundNearest(F, fp3) IN
                  [mant |-> r.mant, exp |-> r.exp, valid |-> TRUE, tr |-> t0 \o <<"B_Round">>,
                   dbg |-> dbg0 \/ acc.dbg \/ r.dbg]

SameFpB(a, b) == a.mant = b.mant /\ a.exp = b.exp /\ a.valid = b.valid

\* bellerophon(num): the public wrapper (with the w / w+1 agreement rule for
\* truncated significands, /repo commit 72f2111)
BellerophonPath(F, num) ==
  LET a == BellImpl(F, num.mant, num.exp, num.many, FALSE) IN
  IF num.many /\ a.valid THEN
     IF num.mant = U64Max THEN
        LET d == BellImpl(F, num.mant, num.exp, num.many, TRUE) IN [d EXCEPT !.tr = a.tr \o <<"B_TruncNoSucc">> \o d.tr]
     ELSE LET b == BellImpl(F, Add(num.mant, <<1>>), num.exp, num.many, FALSE) IN
          IF SameFpB(a, b) THEN [a EXCEPT !.tr = a.tr \o <<"B_TruncAgree">>]
          ELSE LET d == BellImpl(F, num.mant, num.exp, num.many, TRUE)
               IN [d EXCEPT !.tr = a.tr \o <<"B_TruncDiffer">>]
  ELSE a

\* the algorithm as it was before the repair (kept for the design-level
\* demonstration of finding F1 in MC_Moderate)
BellerophonOriginal(F, num) == BellImpl(F, num.mant, num.exp, num.many, FALSE)
=============================================================================
