-------------------------------- MODULE IEEE --------------------------------
(***************************************************************************)
(* Binary interchange formats and the declarative definition of "correctly *)
(* rounded" that every value verdict of the framework is an evaluation of. *)
(* No floating point, no division: a bit pattern is right for a decimal    *)
(* value iff the value lies between the two midpoints that surround the    *)
(* float, decided by cross-multiplied big-natural comparisons.             *)
(* A second, constructive definition RN (long division + sticky bit) is    *)
(* checked against it in MC_IEEE.                                          *)
(***************************************************************************)
EXTENDS Segs

\* ---------------------------------------------------------------- formats
F64  == [mbits |-> 52, ebits |-> 11]
F32  == [mbits |-> 23, ebits |-> 8]
BF16 == [mbits |-> 7,  ebits |-> 8]
F16  == [mbits |-> 10, ebits |-> 5]
F10  == [mbits |-> 3,  ebits |-> 6]
F8   == [mbits |-> 3,  ebits |-> 4]

Bias(F)      == 2^(F.ebits - 1) - 1
Prec(F)      == F.mbits + 1
EMaxField(F) == 2^F.ebits - 1
ETiny(F)     == 1 - Bias(F) - F.mbits          \* exponent of the subnormal unit
EMax(F)      == EMaxField(F) - 1 - Bias(F)     \* exponent of the top binade
InfBits(F)   == Shl(FromInt(EMaxField(F)), F.mbits)
Width(F)     == F.mbits + F.ebits + 1

ExpField(F, bits) == ToInt(ModPow2(Shr(bits, F.mbits), F.ebits))
Frac(F, bits)     == ModPow2(bits, F.mbits)
SignSet(F, bits)  == Bit(bits, F.mbits + F.ebits) = 1
FitsWidth(F, bits) == BitLen(bits) <= Width(F)

\* class and (m, e) with |value| = m * 2^e
Decode(F, bits) ==
  LET ef == ExpField(F, bits)  fr == Frac(F, bits) IN
  IF ef = EMaxField(F) THEN [class |-> IF fr = <<>> THEN "inf" ELSE "nan", m |-> <<>>, e |-> 0]
  ELSE IF ef = 0 THEN [class |-> IF fr = <<>> THEN "zero" ELSE "subnormal", m |-> fr, e |-> ETiny(F)]
  ELSE [class |-> "normal", m |-> Add(fr, Pow2(F.mbits)), e |-> ef - Bias(F) - F.mbits]

\* pack (biased exponent field, fraction) -- a sum, fields assumed in range
Encode(F, ef, fr) == Add(Shl(FromInt(ef), F.mbits), fr)

\* ---------------------------------------------------- decimal value
(* A decimal input  int.frac x 10^exp  abstracted to what comparisons need: *)
(*   kind "zero"            the value is 0                                  *)
(*   kind "huge" / "tiny"   beyond 10^400 / below 10^-400 (any format here) *)
(*   kind "norm"            value in [D, D+1) * 10^E, equal to D*10^E iff   *)
(*                          ~tail; D has at most T significant digits       *)
T == 800

DecValT(int, frac, exp, t) ==
  LET il == SLen(int)
      all == int \o frac
      z == SLeadingZeros(all)
      n == il + SLen(frac) - z
  IN IF n = 0 THEN [kind |-> "zero"]
     ELSE IF exp > 1000000000 THEN [kind |-> "huge"]
     ELSE IF exp < -1000000000 THEN [kind |-> "tiny"]
     ELSE LET P == exp + (il - z)          \* value = 0.d1..dn * 10^P, d1 # 0
          IN IF P > 400 THEN [kind |-> "huge"]
             ELSE IF P < -400 THEN [kind |-> "tiny"]
             ELSE LET m == Min2(n, t)
                  IN [kind |-> "norm",
                      D |-> FromDigits(SSlice(all, z + 1, z + m)),
                      E |-> P - m,
                      tail |-> SAnyNonZeroAfter(all, z + m)]
DecVal(int, frac, exp) == DecValT(int, frac, exp, T)

\* m * 2^k as a value (exact)
BinVal(m, k) == IF m = <<>> THEN [kind |-> "zero"] ELSE [kind |-> "bin", M |-> m, k |-> k]

\* w * 10^q as a decimal value (w a BigNat, q any int)
DecOfWQ(w, q) ==
  IF w = <<>> THEN [kind |-> "zero"]
  ELSE IF q > 1000 THEN [kind |-> "huge"]
  ELSE IF q < -1000 THEN [kind |-> "tiny"]
  ELSE [kind |-> "norm", D |-> w, E |-> q, tail |-> FALSE]

\* sign(D*10^E - M*2^k), |E| <= 1300
CmpV(D, E, M, k) ==
  IF E >= 0 THEN CmpScaled(Pow5Mul(D, E), E, M, k)
  ELSE CmpScaled(D, E, Pow5Mul(M, -E), k)

\* sign(value - M*2^k) for M > 0; 2 = cannot be decided from the digits kept
CmpDV(dv, M, k) ==
  IF dv.kind = "bin" THEN CmpScaled(dv.M, dv.k, M, k)        \* an exact binary value M * 2^k
  ELSE IF dv.kind = "zero" THEN -1
  ELSE IF dv.kind = "huge" THEN 1
  ELSE IF dv.kind = "tiny" THEN -1
  ELSE LET c == CmpV(dv.D, dv.E, M, k) IN
       IF ~dv.tail THEN c
       ELSE IF c >= 0 THEN 1
       ELSE IF CmpV(Add(dv.D, <<1>>), dv.E, M, k) <= 0 THEN -1
       ELSE 2

\* ------------------------------------------------------------ the oracle
(* Judge = "ok" | "wrong" | "indet".  bits is a BigNat.                    *)
Judge(F, bits, dv) ==
  IF ~FitsWidth(F, bits) \/ SignSet(F, bits) THEN "wrong"
  ELSE
  LET dc == Decode(F, bits)
      p == Prec(F)
  IN IF dc.class = "nan" THEN "wrong"
     ELSE IF dc.class = "inf" THEN
        \* value >= 2^(emax+1) - 2^(emax-p)   (ties to even -> infinity)
        LET c == CmpDV(dv, Sub(Pow2(p + 1), <<1>>), EMax(F) - p)
        IN IF c = 2 THEN "indet" ELSE IF c >= 0 THEN "ok" ELSE "wrong"
     ELSE IF dc.class = "zero" THEN
        IF dv.kind = "zero" THEN "ok"
        ELSE LET c == CmpDV(dv, <<1>>, ETiny(F) - 1)
             IN IF c = 2 THEN "indet" ELSE IF c <= 0 THEN "ok" ELSE "wrong"
     ELSE IF dv.kind = "zero" THEN "wrong"
     ELSE
        LET m == dc.m  e == dc.e
            even == ~IsOdd(m)
            cu == CmpDV(dv, Add(Shl(m, 1), <<1>>), e - 1)
            boundary == m = Pow2(F.mbits) /\ e > ETiny(F)
            cl == IF boundary THEN CmpDV(dv, Sub(Shl(m, 2), <<1>>), e - 2)
                  ELSE CmpDV(dv, Sub(Shl(m, 1), <<1>>), e - 1)
        IN IF cu = 2 \/ cl = 2 THEN "indet"
           ELSE IF (cu < 0 \/ (cu = 0 /\ even)) /\ (cl > 0 \/ (cl = 0 /\ even)) THEN "ok"
           ELSE "wrong"

Correct(F, bits, dv) == Judge(F, bits, dv) = "ok"

\* ----------------------------------------- constructive round-to-nearest
(* Round (Q + delta) * 2^x, 0 <= delta < 1, delta > 0 iff st, to format F. *)
(* Requires BitLen(Q) >= Prec(F) + 2 whenever st, so delta never reaches   *)
(* the rounding bit.                                                       *)
RoundQ(F, Q, st, x) ==
  LET p == Prec(F)
      bl == BitLen(Q)
      e0 == Max2(bl + x - p, ETiny(F))         \* exponent of the result's unit
      sh == e0 - x
  IN IF sh <= 0 THEN
        \* exact (no bits dropped; st is FALSE here by the requirement)
        LET m == Shl(Q, -sh) IN
        IF Cmp(m, Pow2(F.mbits)) < 0 THEN Encode(F, 0, m)
        ELSE LET ef == e0 - ETiny(F) + 1 IN
             IF ef >= EMaxField(F) THEN InfBits(F) ELSE Encode(F, ef, ModPow2(m, F.mbits))
     ELSE
        LET m0 == Shr(Q, sh)
            rem == ModPow2(Q, sh)
            half == Pow2(sh - 1)
            c == Cmp(rem, half)
            up == c > 0 \/ (c = 0 /\ (st \/ IsOdd(m0)))
            m1 == IF up THEN Add(m0, <<1>>) ELSE m0
            carry == m1 = Pow2(p)
            m == IF carry THEN Pow2(p - 1) ELSE m1
            e == IF carry THEN e0 + 1 ELSE e0
        IN IF Cmp(m, Pow2(F.mbits)) < 0 THEN Encode(F, 0, m)       \* subnormal (e = etiny)
           ELSE LET ef == e - ETiny(F) + 1 IN
                IF ef >= EMaxField(F) THEN InfBits(F) ELSE Encode(F, ef, ModPow2(m, F.mbits))

(* For a value with a tail (more than T significant digits) the sticky bit  *)
(* stands for the dropped digits.  That is exact provided no rounding       *)
(* boundary lies strictly inside (D, D+1)*10^E -- impossible for the formats *)
(* here (a boundary has far fewer than T significant digits), and Judge      *)
(* reports "indet" independently if it ever happened.                        *)
RN(F, dv) ==
  IF dv.kind = "bin" THEN RoundQ(F, dv.M, FALSE, dv.k)
  ELSE IF dv.kind = "zero" \/ dv.kind = "tiny" THEN <<>>
  ELSE IF dv.kind = "huge" THEN InfBits(F)
  ELSE IF dv.E >= 0 THEN
       LET N == Pow5Mul(dv.D, dv.E) IN
       IF dv.tail /\ BitLen(N) < Prec(F) + 2
       THEN RoundQ(F, Shl(N, Prec(F) + 2), TRUE, dv.E - Prec(F) - 2)
       ELSE RoundQ(F, N, dv.tail, dv.E)
  ELSE LET den == Pow5(-dv.E)
           t == Max2(0, Prec(F) + 3 - (BitLen(dv.D) - BitLen(den)))
           dm == DivMod(Shl(dv.D, t), den)
       IN RoundQ(F, dm[1], dv.tail \/ dm[2] # <<>>, dv.E - t)

\* ----------------------------------------------------- neighbours, midpoints
\* successor bit pattern of a finite non-negative float (max finite -> inf)
SuccBits(bits) == Add(bits, <<1>>)

\* the midpoint between the float `bits` (finite, >= 0) and its successor,
\* as M * 2^k
Midpoint(F, bits) ==
  LET dc == Decode(F, bits) IN
  IF dc.class = "zero" THEN [M |-> <<1>>, k |-> ETiny(F) - 1]
  ELSE [M |-> Add(Shl(dc.m, 1), <<1>>), k |-> dc.e - 1]

\* M * 2^k as <<digits, exponent>>: value = digits * 10^exponent (exact)
ExactDecimal(M, k) ==
  IF k >= 0 THEN [ds |-> ToDigits(Shl(M, k)), e |-> 0]
  ELSE [ds |-> ToDigits(Pow5Mul(M, -k)), e |-> k]
=============================================================================
