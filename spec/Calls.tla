-------------------------------- MODULE Calls --------------------------------
(***************************************************************************)
(* C16: parse_float as seen by its callers -- several threads, each making  *)
(* calls one after another on its own stack.  A call is a short computation  *)
(* on a fixed-capacity scratch vector whose storage is NOT initialised: the  *)
(* cells hold whatever the previous calls of that thread left there          *)
(* (`stack[t]`).  The design being modelled:                                 *)
(*   - the scratch vector lives in the caller's stack frame (per thread);    *)
(*   - cells are written before the length covers them, and only cells       *)
(*     below the length are ever read;                                       *)
(*   - there is no state shared between calls or threads.                    *)
(* Property: whatever the interleaving and whatever the stacks contain,      *)
(* every call returns Result(input).                                         *)
(*                                                                         *)
(* Two switches describe designs the code does NOT have and that would       *)
(* break the property; MC_Calls checks that TLC finds the violation when     *)
(* they are on (so the model is able to see the failure modes C16 names):    *)
(*   SharedScratch   one static scratch buffer used by all threads           *)
(*   LenBeforeWrite  resize sets the length before writing the new cells     *)
(*   Memo            a one-entry "last result" shortcut keyed by a PREFIX of  *)
(*                   the input ("thread": one slot per thread, "global": one  *)
(*                   slot for all): a later call whose input shares the       *)
(*                   prefix returns the remembered result                     *)
(***************************************************************************)
EXTENDS Naturals, Sequences, FiniteSets, TLC

CONSTANTS Threads, Inputs, CAP, Garbage, SharedScratch, LenBeforeWrite, Memo

\* an input is a short sequence of small numbers ("digits"); the result of a
\* call is their weighted sum computed through the scratch vector
Result(inp) == LET n == Len(inp) IN IF n = 0 THEN 0 ELSE inp[1] * 4 + (IF n > 1 THEN inp[2] * 2 ELSE 0) + n

VARIABLES pc, arg, len, stack, shared, out, pending, memo
vars == <<pc, arg, len, stack, shared, out, pending, memo>>

\* the memo slot a thread uses, and the (too coarse) key of an input: its first element
Slot(t) == IF Memo = "global" THEN CHOOSE x \in Threads : TRUE ELSE t
KeyOf(inp) == IF inp = <<>> THEN 0 ELSE inp[1]
NoMemo == [key |-> 99, val |-> 0]       \* no input starts with 99

\* the cells a thread's scratch vector occupies: its own stack frame, or the shared buffer
Cells(t) == IF SharedScratch THEN shared ELSE stack[t]
SetCells(t, c) == IF SharedScratch THEN shared' = c /\ UNCHANGED stack
                  ELSE stack' = [stack EXCEPT ![t] = c] /\ UNCHANGED shared

Init ==
  /\ pc = [t \in Threads |-> "idle"]
  /\ arg = [t \in Threads |-> <<>>]
  /\ len = [t \in Threads |-> 0]
  /\ stack \in [Threads -> [1..CAP -> Garbage]]          \* arbitrary leftovers
  /\ shared \in [1..CAP -> Garbage]
  /\ out = [t \in Threads |-> 0]
  /\ pending = [t \in Threads |-> 0]
  /\ memo = [t \in Threads |-> NoMemo]

\* parse_float(input): StackVec::new() -- length 0, storage untouched
Call(t, inp) ==
  /\ pc[t] = "idle" /\ pending[t] < 2
  /\ arg' = [arg EXCEPT ![t] = inp]
  /\ len' = [len EXCEPT ![t] = 0]
  /\ IF Memo # "none" /\ memo[Slot(t)].key = KeyOf(inp)
     THEN \* the shortcut: return what was remembered for this key
          pc' = [pc EXCEPT ![t] = "ret"] /\ out' = [out EXCEPT ![t] = memo[Slot(t)].val]
     ELSE pc' = [pc EXCEPT ![t] = "push"] /\ UNCHANGED out
  /\ UNCHANGED <<stack, shared, pending, memo>>

\* try_extend: write the digits, then set the length
Push(t) ==
  /\ pc[t] = "push"
  /\ LET n == Len(arg[t])
         c == [k \in 1..CAP |-> IF k <= n THEN arg[t][k] ELSE Cells(t)[k]]
     IN SetCells(t, c) /\ len' = [len EXCEPT ![t] = n]
  /\ pc' = [pc EXCEPT ![t] = "resize"]
  /\ UNCHANGED <<arg, out, pending, memo>>

\* try_resize(CAP, 0) in two steps: (correct) write the cells, then the length
ResizeWrite(t) ==
  /\ pc[t] = "resize"
  /\ IF LenBeforeWrite
     THEN len' = [len EXCEPT ![t] = CAP] /\ UNCHANGED <<stack, shared>>
     ELSE SetCells(t, [k \in 1..CAP |-> IF k <= len[t] THEN Cells(t)[k] ELSE 0]) /\ UNCHANGED len
  /\ pc' = [pc EXCEPT ![t] = "resize2"]
  /\ UNCHANGED <<arg, out, pending, memo>>
\* a read of the whole vector may happen between the two steps (a carry loop): it reads cells below len only
Peek(t) ==
  /\ pc[t] = "resize2"
  /\ out' = [out EXCEPT ![t] = IF len[t] >= 2 THEN Cells(t)[1] * 4 + Cells(t)[2] * 2 ELSE IF len[t] = 1 THEN Cells(t)[1] * 4 ELSE 0]
  /\ pc' = [pc EXCEPT ![t] = "resize3"]
  /\ UNCHANGED <<arg, len, stack, shared, pending, memo>>
ResizeFinish(t) ==
  /\ pc[t] = "resize3"
  /\ IF LenBeforeWrite
     THEN SetCells(t, [k \in 1..CAP |-> IF k <= Len(arg[t]) THEN Cells(t)[k] ELSE 0]) /\ UNCHANGED len
     ELSE len' = [len EXCEPT ![t] = CAP] /\ UNCHANGED <<stack, shared>>
  /\ pc' = [pc EXCEPT ![t] = "compute"]
  /\ UNCHANGED <<arg, out, pending, memo>>

\* the result reads cells 1..len (all of them, after the resize)
Compute(t) ==
  /\ pc[t] = "compute"
  /\ LET c == Cells(t) IN
     out' = [out EXCEPT ![t] = c[1] * 4 + c[2] * 2 + Len(arg[t]) +
                               (IF CAP >= 3 THEN c[3] * 0 ELSE 0)]
  /\ pc' = [pc EXCEPT ![t] = "ret"]
  /\ UNCHANGED <<arg, len, stack, shared, pending, memo>>

\* return: the frame is popped, its contents stay behind as garbage for the next call
Return(t) ==
  /\ pc[t] = "ret"
  /\ pc' = [pc EXCEPT ![t] = "idle"]
  /\ pending' = [pending EXCEPT ![t] = pending[t] + 1]
  /\ memo' = IF Memo = "none" THEN memo ELSE [memo EXCEPT ![Slot(t)] = [key |-> KeyOf(arg[t]), val |-> out[t]]]
  /\ UNCHANGED <<arg, len, stack, shared, out>>

Next == \E t \in Threads : \/ (\E inp \in Inputs : Call(t, inp)) \/ Push(t) \/ ResizeWrite(t) \/ Peek(t)
                           \/ ResizeFinish(t) \/ Compute(t) \/ Return(t)
Spec == Init /\ [][Next]_vars

\* C16: a returning call returns the function of its input -- independent of
\* interleaving, of what the stacks contained, of the other threads
Pure == \A t \in Threads : pc[t] = "ret" => out[t] = Result(arg[t])
\* the partial read sees initialised cells only: its value is a function of the input as well
PeekPure == \A t \in Threads : pc[t] = "resize3" =>
               out[t] = (IF Len(arg[t]) >= 2 THEN arg[t][1] * 4 + arg[t][2] * 2
                         ELSE IF Len(arg[t]) = 1 THEN arg[t][1] * 4 ELSE 0)
LenBounded == \A t \in Threads : len[t] <= CAP
=============================================================================
