-------------------------------- MODULE Slow --------------------------------
(***************************************************************************)
(* src/slow.rs: the big-integer fallback.  Big integers are naturals        *)
(* (value level); the number of 64-bit limbs every intermediate needs is    *)
(* tracked, because the stack back-end panics beyond 62 limbs.              *)
(***************************************************************************)
EXTENDS Rounding, Tables

BigintLimbs == 62

MaxDigits(F) == Consts(F).maxdigits

Limbs64(x) == (BitLen(x) + 63) \div 64

\* number of decimal digits of a u64 (scientific_exponent's loop); 0 -> 1
DecLen(m) ==
  FoldLeft(LAMBDA acc, k: IF Cmp(m, Pow10(k)) >= 0 THEN k + 1 ELSE acc, 1, Idx(19))
SciExp(num) == num.exp + DecLen(num.mant) - 1

\* parse_mantissa(int, frac, max) -> [big, count, tr]   (valid digits)
ParseMantissa(int, frac, maxd) ==
  LET il == SLen(int)  fl == SLen(frac)
      z == IF il = 0 THEN SLeadingZeros(frac) ELSE 0
      all == int \o frac
      n == il + fl - z
  IN IF n < maxd \/ (n = maxd /\ ~SAnyNonZeroAfter(all, z + maxd))
     THEN [big |-> FromDigits(SSlice(all, z + 1, z + n)), count |-> n,
           tr |-> <<IF n = maxd THEN "PM_ExactlyMax" ELSE "PM_All">>]
     ELSE IF SAnyNonZeroAfter(all, z + maxd)
     THEN [big |-> MulSmallAdd(FromDigits(SSlice(all, z + 1, z + maxd)), 10, 1), count |-> maxd + 1,
           tr |-> <<"PM_CutSticky">>]
     ELSE [big |-> FromDigits(SSlice(all, z + 1, z + maxd)), count |-> maxd, tr |-> <<"PM_CutZeroTail">>]

\* hi64: top 64 bits (left-aligned) and "any lower bit set"
Hi64(x) ==
  LET bl == BitLen(x) IN
  IF bl <= 64 THEN [hi |-> Shl(x, 64 - bl), sticky |-> FALSE]
  ELSE [hi |-> Shr(x, bl - 64), sticky |-> ModPow2(x, bl - 64) # <<>>]

\* positive_digit_comp(bigmant, exponent) -> [mant, exp, limbs, tr, dbg]
PositiveDigitComp(F, big, e10) ==
  LET p5 == Pow5Mul(big, e10)
      v == Shl(p5, e10)
      h == Hi64(v)
      fp == [mant |-> h.hi, exp |-> BitLen(v) - 64 + ExpBias(F)]
      r == Round(F, fp, LAMBDA odd, half, above: above \/ (half /\ h.sticky) \/ (odd /\ half))
  IN [mant |-> r.mant, exp |-> r.exp, limbs |-> Max2(Limbs64(v), Limbs64(big)),
      tr |-> <<IF h.sticky THEN "S_PositiveSticky" ELSE "S_PositiveExact">>, dbg |-> r.dbg]

\* negative_digit_comp(bigmant, fp, exponent), exponent < 0
NegativeDigitComp(F, big, est, e10) ==
  LET b0 == RoundDown(F, est)
      bbits == ExtendedToFloat(F, b0)
      th == BHOf(F, bbits)                         \* b + h = (2m+1) * 2^(e-1)
      binexp == th.exp - e10
      theor0 == Pow5Mul(th.mant, -e10)
      theor == IF binexp > 0 THEN Shl(theor0, binexp) ELSE theor0
      real == IF binexp < 0 THEN Shl(big, -binexp) ELSE big
      ord == Cmp(real, theor)
      r == Round(F, est, LAMBDA odd, half, above: ord > 0 \/ (ord = 0 /\ odd))
  IN [mant |-> r.mant, exp |-> r.exp, limbs |-> Max2(Limbs64(theor), Limbs64(real)),
      tr |-> <<IF ord > 0 THEN "S_NegativeAbove" ELSE IF ord < 0 THEN "S_NegativeBelow" ELSE "S_NegativeTie">>,
      dbg |-> r.dbg \/ b0.dbg \/ Bit(est.mant, 63) = 0]

\* slow(num, fp, integer, fraction)
SlowPath(F, num, est, int, frac) ==
  LET pm == ParseMantissa(int, frac, MaxDigits(F))
      e10 == SciExp(num) + 1 - pm.count
      r == IF e10 >= 0 THEN PositiveDigitComp(F, pm.big, e10) ELSE NegativeDigitComp(F, pm.big, est, e10)
  IN [mant |-> r.mant, exp |-> r.exp, limbs |-> r.limbs, tr |-> pm.tr \o r.tr,
      dbg |-> r.dbg \/ Bit(est.mant, 63) = 0, e10 |-> e10, count |-> pm.count]
=============================================================================
