------------------------------ MODULE BigintOps ------------------------------
(***************************************************************************)
(* src/bigint.rs at the limb level: the multi-limb algorithms written as    *)
(* the code's loops (explicit carries, resize-before-add, partial products, *)
(* bit and limb shifts, stepped powers of five), next to what each must     *)
(* mean on natural numbers.  Vectors and limbs as in Vec.tla.               *)
(* Operations return [v, r] with r = "ok" / "none" (Option<()>); a failing  *)
(* operation may leave partial work in v, as the code does.                 *)
(***************************************************************************)
EXTENDS Vec

\* stepped powers of five: the largest power that fits one limb, and the
\* pre-computed large power (5^135 for 64-bit limbs); NoLargeStep models `compact`
CONSTANTS SmallStep, LargeStep, NoLargeStep

MaxNative == Pow5(SmallStep)
\* the large power as a limb vector (LARGE_POW5)
VecOfNat(x) == [k \in 1..((BitLen(x) + LBITS - 1) \div LBITS) |-> ModPow2(Shr(x, LBITS * (k - 1)), LBITS)]
LargePow5Vec == VecOfNat(Pow5(LargeStep))

Fail(v) == [v |-> v, r |-> "none"]
Ok(v) == [v |-> v, r |-> "ok"]

\* ------------------------------------------------------------ large_add_from
LargeAddFrom(x, y, start) ==
  LET need == Len(y) > Max2(Len(x) - start, 0)
      x1 == IF need THEN TryResize(x, Len(y) + start, <<>>) ELSE Ok(x)
  IN IF x1.r = "none" THEN Fail(x)
     ELSE
     LET st == FoldLeft(LAMBDA acc, k:
                          LET xi == acc.v[start + k]
                              s1 == ScalarAdd(xi, y[k])
                              s2 == IF acc.c = 1 THEN ScalarAdd(s1.lo, <<1>>) ELSE [lo |-> s1.lo, c |-> 0]
                              cout == IF s1.c = 1 \/ s2.c = 1 THEN 1 ELSE 0
                          IN [v |-> [acc.v EXCEPT ![start + k] = s2.lo], c |-> cout],
                        [v |-> x1.v, c |-> 0], Idx(Len(y)))
     IN IF st.c = 1 THEN SmallAddFrom(st.v, <<1>>, Len(y) + start) ELSE Ok(st.v)
LargeAdd(x, y) == LargeAddFrom(x, y, 0)

\* ------------------------------------------------------------------ long_mul
\* long_mul(x, y) -> Option<vec>: grade-school, one partial product per non-zero limb of y
LongMul(x, y) ==
  LET z0 == TryFrom(x) IN
  IF z0.r = "none" THEN Fail(<<>>)
  ELSE IF y = <<>> THEN Ok(Normalize(z0.v))
  ELSE
  LET z1 == SmallMul(z0.v, y[1]) IN
  IF z1.r = "none" THEN Fail(<<>>)
  ELSE
  LET st == FoldLeft(LAMBDA acc, k:
                       IF k = 1 \/ acc.r = "none" \/ y[k] = <<>> THEN acc
                       ELSE LET zi == SmallMul(x, y[k])          \* VecType::try_from(x) cannot fail here (it did not above)
                            IN IF zi.r = "none" THEN Fail(acc.v)
                               ELSE LargeAddFrom(acc.v, zi.v, k - 1),
                     Ok(z1.v), Idx(Len(y)))
  IN IF st.r = "none" THEN Fail(<<>>) ELSE Ok(Normalize(st.v))

\* large_mul(x, y): in place
LargeMul(x, y) ==
  IF Len(y) = 1 THEN SmallMul(x, y[1])
  ELSE LET p == LongMul(y, x) IN IF p.r = "none" THEN Fail(x) ELSE Ok(p.v)

\* ----------------------------------------------------------------------- pow
\* pow(x, exp): x *= 5^exp by large steps, then limb-sized steps, then the rest
Pow(x, exp) ==
  LET nl == IF NoLargeStep THEN 0 ELSE exp \div LargeStep
      s1 == FoldLeft(LAMBDA acc, k: IF acc.r = "none" THEN acc ELSE LargeMul(acc.v, LargePow5Vec), Ok(x), Idx(nl))
      e1 == exp - nl * LargeStep
      ns == e1 \div SmallStep
      s2 == FoldLeft(LAMBDA acc, k: IF acc.r = "none" THEN acc ELSE SmallMul(acc.v, MaxNative), s1, Idx(ns))
      e2 == e1 - ns * SmallStep
  IN IF s2.r = "none" \/ e2 = 0 THEN s2 ELSE SmallMul(s2.v, Pow5(e2))

\* ---------------------------------------------------------------------- shifts
\* shl_bits(x, n), 0 < n < LBITS
ShlBits(x, n) ==
  LET rshift == LBITS - n
      st == FoldLeft(LAMBDA acc, k:
                       LET xi == acc.v[k]
                           ni == Add(ModPow2(Shl(xi, n), LBITS), Shr(acc.prev, rshift))
                       IN [v |-> [acc.v EXCEPT ![k] = ni], prev |-> xi],
                     [v |-> x, prev |-> <<>>], Idx(Len(x)))
      carry == Shr(st.prev, rshift)
  IN IF carry # <<>> THEN TryPush(st.v, carry) ELSE Ok(st.v)

\* shl_limbs(x, n), n > 0.  The heap back-end compares with its current
\* allocation, which the specification does not track: beyond CAP it may
\* refuse or succeed ("maybe").
ShlLimbs(x, n) ==
  IF n + Len(x) > CAP THEN (IF Heap THEN [v |-> x, r |-> "maybe"] ELSE Fail(x))
  ELSE IF x = <<>> THEN Ok(x)
  ELSE Ok([k \in 1..n |-> <<>>] \o x)

\* shl(x, n)
ShlVec(x, n) ==
  LET rem == n % LBITS  div == n \div LBITS
      s1 == IF rem # 0 THEN ShlBits(x, rem) ELSE Ok(x)
  IN IF s1.r = "none" THEN s1
     ELSE IF div # 0 THEN ShlLimbs(s1.v, div) ELSE s1

\* -------------------------------------------- hi64 helpers for 32-bit limbs
(* src/bigint.rs u32_to_hi64_1/2/3 and u64_to_hi64_1/2: the building blocks   *)
(* of hi64 for both limb widths (the 32-bit ones are compiled on every target  *)
(* but used only where limbs are 32 bits).  Arguments are BigNats below 2^32 /  *)
(* 2^64, most significant first; result [hi, sticky] as the code returns it.    *)
U64Hi1(r0) == [hi |-> ModPow2(Shl(r0, 64 - BitLen(r0)), 64), sticky |-> FALSE]            \* r0 << leading_zeros(r0); 0 -> 0
U64Hi2(r0, r1) ==
  LET ls == 64 - BitLen(r0) IN
  IF ls = 0 THEN [hi |-> r0, sticky |-> r1 # <<>>]
  ELSE IF ls = 64 THEN [hi |-> r1, sticky |-> r1 # <<>>]        \* r0 = 0: release semantics of the wrapping shifts (not reached from hi64 on normalised input)
  ELSE [hi |-> Add(ModPow2(Shl(r0, ls), 64), Shr(r1, 64 - ls)), sticky |-> ModPow2(Shl(r1, ls), 64) # <<>>]
U32Hi1(r0) == U64Hi1(r0)
U32Hi2(r0, r1) == U64Hi1(Add(Shl(r0, 32), r1))
U32Hi3(r0, r1, r2) == U64Hi2(r0, Add(Shl(r1, 32), r2))

\* what they must mean: top 64 bits (left-aligned) of the number whose most significant limb is r0 (non-zero),
\* and whether any lower bit is set
HiMeans(val, h) ==
  LET bl == BitLen(val) IN
  IF bl <= 64 THEN h.hi = Shl(val, 64 - bl) /\ ~h.sticky
  ELSE h.hi = Shr(val, bl - 64) /\ h.sticky = (ModPow2(val, bl - 64) # <<>>)

\* leading_zeros / bit_length
LeadingZerosVec(x) == IF x = <<>> THEN 0 ELSE LBITS - BitLen(x[Len(x)])
BitLengthVec(x) == LBITS * Len(x) - LeadingZerosVec(x)

\* -------------------------------------------------- meaning on natural numbers
FitsCap(val) == BitLen(val) <= LBITS * CAP
NonZeroNorm(v) == v # <<>> /\ Normalized(v)

\* success => exact; for normalised non-zero operands on the stack back-end,
\* failure <=> the exact result does not fit the capacity
Exact(out, val) == out.r = "ok" => ValueOfVec(out.v) = val
FailsIffTooBig(out, val) == ~Heap => (out.r = "none" <=> ~FitsCap(val))

LargeAddMeans(x, y, start, out) ==
  LET val == Add(ValueOfVec(x), Shl(ValueOfVec(y), LBITS * start)) IN
  /\ Exact(out, val)
  /\ (NonZeroNorm(y) /\ Normalized(x)) => FailsIffTooBig(out, val)
LongMulMeans(x, y, out) ==
  LET val == Mul(ValueOfVec(x), ValueOfVec(y)) IN
  (NonZeroNorm(x) /\ NonZeroNorm(y)) => (Exact(out, val) /\ FailsIffTooBig(out, val) /\ (out.r = "ok" => Normalized(out.v)))
LargeMulMeans(x, y, out) == LongMulMeans(x, y, out)
PowMeans(x, exp, out) ==
  LET val == Pow5Mul(ValueOfVec(x), exp) IN
  NonZeroNorm(x) => (Exact(out, val) /\ FailsIffTooBig(out, val))
ShlMeans(x, n, out) ==
  LET val == Shl(ValueOfVec(x), n) IN
  /\ (out.r = "ok" => ValueOfVec(out.v) = val)
  /\ NonZeroNorm(x) => (~Heap => (out.r = "none" <=> ~FitsCap(val)))
BitLengthMeans(x) == Normalized(x) => BitLengthVec(x) = BitLen(ValueOfVec(x))
=============================================================================
