------------------------------ MODULE Rounding ------------------------------
(***************************************************************************)
(* src/mask.rs, src/rounding.rs and extended_float::extended_to_float.     *)
(* An extended float is [mant |-> u64 as BigNat, exp |-> Int] (biased      *)
(* binary exponent).  `dbg` fields record debug assertions that would      *)
(* fire in a build with debug-assertions.                                  *)
(***************************************************************************)
EXTENDS Mach

\* -------------------------------------------------------------- mask.rs
LowerNMask(n)    == Sub(Pow2(n), <<1>>)                      \* n in 0..64
LowerNHalfway(n) == IF n = 0 THEN <<>> ELSE Pow2(n - 1)      \* n in 0..64
NthBit(n)        == Pow2(n)                                  \* n in 0..63

\* ---------------------------------------------------- per-format constants
MantissaShift(F)  == 64 - F.mbits - 1
HiddenBit(F)      == Pow2(F.mbits)
CarryMask(F)      == Pow2(F.mbits + 1)
InfinitePower(F)  == EMaxField(F)
ExpBias(F)        == Bias(F) + F.mbits          \* EXPONENT_BIAS of num.rs
InvalidFp         == -32768

\* ------------------------------------------------- round_nearest_tie_even
(* Shift right by `shift` (<= 64) and add Up(is_odd, is_halfway, is_above). *)
ShiftRound(fp, shift, Up(_, _, _)) ==
  LET trunc == ModPow2(fp.mant, shift)
      half  == LowerNHalfway(shift)
      above == Cmp(trunc, half) > 0
      halfway == trunc = half
      q == IF shift = 64 THEN <<>> ELSE Shr(fp.mant, shift)
      m == IF Up(IsOdd(q), halfway, above) THEN Add(q, <<1>>) ELSE q
  IN [mant |-> m, exp |-> fp.exp + shift]

\* round_down(fp, shift)
ShiftDown(fp, shift) ==
  [mant |-> IF shift = 64 THEN <<>> ELSE Shr(fp.mant, shift), exp |-> fp.exp + shift]

\* --------------------------------------------------------------- round()
(* cb is either a nearest-style callback (Up) or round_down; both are       *)
(* expressed through Up (round_down = never up).  Result [mant, exp, dbg].  *)
Round(F, fp, Up(_, _, _)) ==
  LET ms == MantissaShift(F) IN
  IF -fp.exp >= ms THEN
     \* denormal branch
     LET shift == -fp.exp + 1
         r == ShiftRound(fp, Min2(shift, 64), Up)
     IN [mant |-> r.mant,
         exp  |-> IF Cmp(r.mant, HiddenBit(F)) >= 0 THEN 1 ELSE 0,
         dbg  |-> shift > 65]
  ELSE
     LET r == ShiftRound(fp, ms, Up)
         carry == Bit(r.mant, F.mbits + 1) = 1           \* mant & CARRY_MASK == CARRY_MASK
         m1 == IF carry THEN Shr(r.mant, 1) ELSE r.mant
         e1 == IF carry THEN r.exp + 1 ELSE r.exp
     IN IF e1 >= InfinitePower(F) THEN [mant |-> <<>>, exp |-> InfinitePower(F), dbg |-> FALSE]
        ELSE [mant |-> ModPow2(m1, F.mbits), exp |-> e1, dbg |-> FALSE]

UpNearest(odd, half, above) == above \/ (odd /\ half)
UpNever(odd, half, above) == FALSE

RoundNearest(F, fp) == Round(F, fp, UpNearest)
RoundDown(F, fp) == Round(F, fp, UpNever)

\* ------------------------------------------------------ extended_to_float
(* word = mant | (exp << mbits): a bitwise OR.  mant < 2^(mbits+1); when    *)
(* the hidden bit is set in mant it coincides with bit 0 of exp.            *)
ExtendedToFloat(F, fp) ==
  LET lowm == ModPow2(fp.mant, F.mbits)
      hb == Bit(fp.mant, F.mbits)
      e == IF hb = 1 /\ fp.exp % 2 = 0 THEN fp.exp + 1 ELSE fp.exp
  IN Add(lowm, Shl(FromInt(e), F.mbits))

\* float (bit pattern) -> extended float with unbiased exponent: slow.rs b(), bh()
BOf(F, bits) ==
  LET dc == Decode(F, bits) IN [mant |-> dc.m, exp |-> dc.e]
BHOf(F, bits) ==
  LET b == BOf(F, bits) IN [mant |-> Add(Shl(b.mant, 1), <<1>>), exp |-> b.exp - 1]
=============================================================================
