------------------------------ MODULE FrontEnd ------------------------------
(***************************************************************************)
(* The reference string front-end shipped with the repository               *)
(* (examples/simple.rs and its copies), two ways:                           *)
(*                                                                         *)
(*  * operationally, as the scanner state machine the code is: sign,        *)
(*    special literals (fuzz / test copies only), integer digits, '.',      *)
(*    fraction digits, exponent mark, exponent sign, exponent digits with   *)
(*    checked accumulation that saturates, zero trimming;                   *)
(*  * declaratively: the longest prefix matching                            *)
(*        [+-]? D* ( '.' D* )? ( [eE] [+-]? D* )?       with D = [0-9]      *)
(*    found by searching all decompositions, its exact value, the suffix.   *)
(*                                                                         *)
(* A string is a sequence of byte values.  The scan result is               *)
(*   [special, neg, int, frac, exp, rest]                                   *)
(* with int / frac digit-value sequences before trimming, exp an i32,       *)
(* rest the number of unconsumed bytes.                                     *)
(***************************************************************************)
EXTENDS Mach

IsDigit(c) == c >= 48 /\ c <= 57
Plus == 43
Minus == 45
Dot == 46
LowerE == 101
UpperE == 69

\* case-insensitive comparison as in case_insensitive_starts_with (xor is 0 or 0x20)
XorMatch(x, y) == \* exactly what the code computes: x ^ y in {0, 32}
  x = y \/ (x \div 64 = y \div 64 /\ x % 32 = y % 32 /\ ((x \div 32) % 2) # ((y \div 32) % 2))
StartsWithCI(s, from, lit) ==
  /\ Len(s) - from + 1 >= Len(lit)
  /\ \A k \in 1..Len(lit) : XorMatch(s[from + k - 1], lit[k])
LitNaN == <<78, 97, 78>>                          \* "NaN"
LitInfinity == <<73, 110, 102, 105, 110, 105, 116, 121>>   \* "Infinity"
LitInf == <<105, 110, 102>>                       \* "inf"

\* ------------------------------------------------------------ operational
\* digits from position p: the index just past the maximal digit run
DigitsEnd(s, p) ==
  FoldLeft(LAMBDA acc, k: IF acc = k /\ IsDigit(s[k]) THEN k + 1 ELSE acc, p, [j \in 1..(Len(s) - p + 1) |-> p + j - 1])

\* parse_exponent: checked accumulation, saturating to i32::MAX / i32::MIN at the first overflow
AccumExp(ds, positive) ==
  LET st == FoldLeft(LAMBDA acc, k:
                       IF acc.sat THEN acc
                       ELSE LET d == ds[k] IN
                            IF positive THEN
                               (IF acc.v > 214748364 \/ (acc.v = 214748364 /\ d > 7) THEN [v |-> MaxI32, sat |-> TRUE]
                                ELSE [v |-> acc.v * 10 + d, sat |-> FALSE])
                            ELSE
                               (IF acc.v < -214748364 \/ (acc.v = -214748364 /\ d > 8) THEN [v |-> MinI32, sat |-> TRUE]
                                ELSE [v |-> acc.v * 10 - d, sat |-> FALSE]),
                     [v |-> 0, sat |-> FALSE], Idx(Len(ds)))
  IN st.v

DigitVals(s, from, to) == [k \in 1..(to - from) |-> s[from + k - 1] - 48]    \* positions from..to-1

\* the scanner, as the sequence of its steps
Scan(s, specials) ==
  LET n == Len(s)
      \* parse_sign
      hasSign == n >= 1 /\ (s[1] = Plus \/ s[1] = Minus)
      neg == n >= 1 /\ s[1] = Minus
      p0 == IF hasSign THEN 2 ELSE 1
  IN IF specials /\ StartsWithCI(s, p0, LitNaN)
     THEN [special |-> "nan", neg |-> neg, int |-> <<>>, frac |-> <<>>, exp |-> 0, rest |-> n - (p0 + 3) + 1]
     ELSE IF specials /\ StartsWithCI(s, p0, LitInfinity)
     THEN [special |-> "inf", neg |-> neg, int |-> <<>>, frac |-> <<>>, exp |-> 0, rest |-> n - (p0 + 8) + 1]
     ELSE IF specials /\ StartsWithCI(s, p0, LitInf)
     THEN [special |-> "inf", neg |-> neg, int |-> <<>>, frac |-> <<>>, exp |-> 0, rest |-> n - (p0 + 3) + 1]
     ELSE
     LET p1 == DigitsEnd(s, p0)                                   \* consume_digits (integer)
         hasDot == p1 <= n /\ s[p1] = Dot
         f0 == IF hasDot THEN p1 + 1 ELSE p1
         p2 == IF hasDot THEN DigitsEnd(s, f0) ELSE p1            \* consume_digits (fraction)
         hasE == p2 <= n /\ (s[p2] = LowerE \/ s[p2] = UpperE)
         e0 == p2 + 1
         eSign == hasE /\ e0 <= n /\ (s[e0] = Plus \/ s[e0] = Minus)
         eNeg == hasE /\ e0 <= n /\ s[e0] = Minus
         e1 == IF eSign THEN e0 + 1 ELSE e0
         p3 == IF hasE THEN DigitsEnd(s, e1) ELSE p2              \* consume_digits (exponent)
         ex == IF hasE THEN AccumExp(DigitVals(s, e1, p3), ~eNeg) ELSE 0
     IN [special |-> "none", neg |-> neg, int |-> DigitVals(s, p0, p1),
         frac |-> IF hasDot THEN DigitVals(s, f0, p2) ELSE <<>>, exp |-> ex, rest |-> n - p3 + 1]

\* ltrim_zero / rtrim_zero
LTrimZeros(ds) ==
  LET k == FoldLeft(LAMBDA acc, j: IF acc = j - 1 /\ ds[j] = 0 THEN j ELSE acc, 0, Idx(Len(ds)))
  IN SubSeq(ds, k + 1, Len(ds))
RTrimZeros(ds) ==
  LET n == Len(ds)
      k == FoldLeft(LAMBDA acc, j: IF acc = j - 1 /\ ds[n + 1 - j] = 0 THEN j ELSE acc, 0, Idx(n))
  IN SubSeq(ds, 1, n - k)

\* ------------------------------------------------------------ declarative
(* All decompositions of a prefix of s of the form                          *)
(*   sign? digits* ( '.' digits* )? ( [eE] sign? digits* )?                 *)
(* described by cut positions; the longest one is the match.                *)
AllDigits(s, from, to) == \A k \in from..(to - 1) : IsDigit(s[k])        \* positions from..to-1

\* built stage by stage so that impossible branches are pruned early
Decompositions(s) ==
  LET n == Len(s)
      As == {1} \cup (IF n >= 1 /\ (s[1] = Plus \/ s[1] = Minus) THEN {2} ELSE {})
      \* a: first position after the optional sign; b: end of integer digits (exclusive)
      ABs == {ab \in As \X (1..(n + 1)) : ab[1] <= ab[2] /\ AllDigits(s, ab[1], ab[2])}
      \* optional '.' and fraction digits ending at c (exclusive)
      DotCs(b) == {<<FALSE, b>>} \cup
                  (IF b <= n /\ s[b] = Dot THEN {<<TRUE, c>> : c \in {c \in (b + 1)..(n + 1) : AllDigits(s, b + 1, c)}} ELSE {})
      \* optional exponent: mark, optional sign, digits ending at f (exclusive)
      Exps(c) == {<<FALSE, FALSE, c>>} \cup
                 (IF c <= n /\ (s[c] = LowerE \/ s[c] = UpperE)
                  THEN {<<TRUE, FALSE, f>> : f \in {f \in (c + 1)..(n + 1) : AllDigits(s, c + 1, f)}} \cup
                       (IF c + 1 <= n /\ (s[c + 1] = Plus \/ s[c + 1] = Minus)
                        THEN {<<TRUE, TRUE, f>> : f \in {f \in (c + 2)..(n + 1) : AllDigits(s, c + 2, f)}} ELSE {})
                  ELSE {})
  IN UNION { UNION { { [a |-> ab[1], b |-> ab[2], dot |-> dc[1], c |-> dc[2], e |-> ex[1], es |-> ex[2], f |-> ex[3]]
                       : ex \in Exps(dc[2]) } : dc \in DotCs(ab[2]) } : ab \in ABs }

Longest(s) ==
  LET D == Decompositions(s) IN CHOOSE d \in D : \A o \in D : o.f <= d.f

\* the exponent as a mathematical integer, then clamped to i32
ExpOf(s, d) ==
  IF ~d.e THEN 0
  ELSE LET g == d.c + 1 + (IF d.es THEN 1 ELSE 0)
           ds == DigitVals(s, g, d.f)
           v == FromDigits(ds)
           negative == d.es /\ s[d.c + 1] = Minus
       IN IF negative THEN (IF Cmp(v, Pow2(31)) >= 0 THEN MinI32 ELSE 0 - ToInt(v))
          ELSE (IF Cmp(v, Pow2(31)) >= 0 THEN MaxI32 ELSE ToInt(v))

Declarative(s, specials) ==
  LET n == Len(s)
      hasSign == n >= 1 /\ (s[1] = Plus \/ s[1] = Minus)
      neg == n >= 1 /\ s[1] = Minus
      p0 == IF hasSign THEN 2 ELSE 1
      lit == IF ~specials THEN "none"
             ELSE IF StartsWithCI(s, p0, LitNaN) THEN "nan"
             ELSE IF StartsWithCI(s, p0, LitInfinity) THEN "infinity"
             ELSE IF StartsWithCI(s, p0, LitInf) THEN "inf" ELSE "none"
  IN IF lit # "none"
     THEN [special |-> IF lit = "nan" THEN "nan" ELSE "inf", neg |-> neg, int |-> <<>>, frac |-> <<>>, exp |-> 0,
           rest |-> n - (p0 - 1) - (IF lit = "infinity" THEN 8 ELSE 3)]
     ELSE LET d == Longest(s) IN
          [special |-> "none", neg |-> neg, int |-> DigitVals(s, d.a, d.b),
           frac |-> IF d.dot THEN DigitVals(s, d.b + 1, d.c) ELSE <<>>, exp |-> ExpOf(s, d), rest |-> n - d.f + 1]

\* ------------------------------------------------------------------ the value
(* What the front-end must return for a scan result: the bit pattern        *)
(* (sign bit included) is judged against the oracle.                         *)
SignBit(F) == Pow2(F.mbits + F.ebits)
NaNBits(F) == Add(InfBits(F), Pow2(F.mbits - 1))          \* EXPONENT_MASK | (HIDDEN_BIT_MASK >> 1)

\* is `bits` (with sign) a correct result for scan result r ?
ResultOK(F, r, bits) ==
  LET mag == ModPow2(bits, F.mbits + F.ebits)
      sgn == Bit(bits, F.mbits + F.ebits) = 1
  IN /\ sgn = r.neg
     /\ FitsWidth(F, bits)
     /\ IF r.special = "nan" THEN mag = NaNBits(F)
        ELSE IF r.special = "inf" THEN mag = InfBits(F)
        ELSE Judge(F, mag, DecVal(Lit(LTrimZeros(r.int)), Lit(RTrimZeros(r.frac)), r.exp)) = "ok"
=============================================================================
