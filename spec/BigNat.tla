------------------------------- MODULE BigNat -------------------------------
(***************************************************************************)
(* Natural numbers of unbounded size for a model checker whose own         *)
(* integers are 32 bit.  A natural is a little-endian sequence of limbs    *)
(* in base B = 2^LB without a high zero limb; <<>> is zero.  Everything    *)
(* is plain TLA+ (no Java overrides); loops are FoldLeft, never recursive  *)
(* operators (30x slower in TLC and stack hungry).                         *)
(*                                                                         *)
(* LB is 15 in all real uses (limb products stay below 2^30).  MC_BigNat   *)
(* lowers it to 3 so that multi-limb carries are exercised on numbers that *)
(* TLC's native integers can still cross-check.                            *)
(***************************************************************************)
EXTENDS Integers, Sequences, SequencesExt, TLC

CONSTANT LB            \* limb width in bits, 1 <= LB <= 15

B == 2^LB

Zero == <<>>
IsZero(x) == x = <<>>

Max2(a, b) == IF a > b THEN a ELSE b
Min2(a, b) == IF a < b THEN a ELSE b
At(x, i) == IF i >= 1 /\ i <= Len(x) THEN x[i] ELSE 0

Idx(n) == [i \in 1..n |-> i]

\* number of base-B digits of a native c, 0 <= c < 2^31
NLimbsInt(c) ==
  FoldLeft(LAMBDA acc, k: IF acc[2] = 0 THEN acc ELSE <<acc[1] + 1, acc[2] \div B>>,
           <<0, c>>, Idx(31))[1]

\* native non-negative int (< 2^31) -> BigNat
FromInt(c) ==
  IF c = 0 THEN <<>>
  ELSE IF c < B THEN <<c>>
  ELSE IF LB = 15 THEN (IF c < B*B THEN <<c % B, c \div B>>
                        ELSE <<c % B, (c \div B) % B, c \div (B*B)>>)
  ELSE LET n == NLimbsInt(c)
           r == FoldLeft(LAMBDA acc, k: <<Append(acc[1], acc[2] % B), acc[2] \div B>>,
                         <<<<>>, c>>, Idx(n))
       IN r[1]

\* BigNat known to be < 2^31 -> native int
ToInt(x) ==
  IF Len(x) = 0 THEN 0
  ELSE IF Len(x) = 1 THEN x[1]
  ELSE FoldLeft(LAMBDA acc, k: acc * B + x[Len(x) + 1 - k], 0, Idx(Len(x)))

FitsInt(x) == Len(x) * LB <= 30 \/ (Len(x) * LB <= 45 /\ LB = 15 /\ x[3] = 0)

\* drop high zero limbs
Strip(s) ==
  LET n == Len(s)
      k == FoldLeft(LAMBDA acc, i: IF s[i] # 0 THEN i ELSE acc, 0, Idx(n))
  IN IF k = n THEN s ELSE SubSeq(s, 1, k)

\* propagate carries; entries of t are non-negative and < 2^31 - 2^16
NormStep(acc, v) == LET s == v + acc[1] IN <<s \div B, Append(acc[2], s % B)>>
Norm(t) == LET r == FoldLeft(NormStep, <<0, <<>>>>, t) IN Strip(r[2] \o FromInt(r[1]))

Add(x, y) == Norm([i \in 1..Max2(Len(x), Len(y)) |-> At(x, i) + At(y, i)])

\* x - y, requires x >= y
SubStep(acc, v) ==
  LET s == v - acc[1]
  IN IF s < 0 THEN <<1, Append(acc[2], s + B)>> ELSE <<0, Append(acc[2], s)>>
Sub(x, y) ==
  LET r == FoldLeft(SubStep, <<0, <<>>>>, [i \in 1..Len(x) |-> x[i] - At(y, i)])
  IN Strip(r[2])

\* x*m + a   (0 <= m <= 2^16, 0 <= a < 2^30)
MulSmallAdd(x, m, a) ==
  IF x = <<>> \/ m = 0 THEN FromInt(a)
  ELSE Norm([i \in 1..Len(x) |-> x[i] * m + (IF i = 1 THEN a ELSE 0)])
MulSmall(x, m) == MulSmallAdd(x, m, 0)

\* three-way comparison: -1, 0, 1
Cmp(x, y) ==
  IF Len(x) < Len(y) THEN -1 ELSE IF Len(x) > Len(y) THEN 1
  ELSE FoldLeft(LAMBDA acc, i: IF x[i] < y[i] THEN -1 ELSE IF x[i] > y[i] THEN 1 ELSE acc,
                0, Idx(Len(x)))
Lt(x, y) == Cmp(x, y) < 0
Le(x, y) == Cmp(x, y) <= 0
Gt(x, y) == Cmp(x, y) > 0
Ge(x, y) == Cmp(x, y) >= 0

\* product: column sums, low and high halves of each limb product kept apart
\* so that every intermediate stays below 2^31
Mul(x, y) ==
  IF x = <<>> \/ y = <<>> THEN <<>>
  ELSE LET n == Len(x)  m == Len(y)
           lo[k \in 1..(n+m)] ==
              FoldLeft(LAMBDA acc, i: IF k+1-i >= 1 /\ k+1-i <= m
                                      THEN acc + ((x[i] * y[k+1-i]) % B) ELSE acc,
                       0, Idx(n))
           hi[k \in 1..(n+m)] ==
              FoldLeft(LAMBDA acc, i: IF k+1-i >= 1 /\ k+1-i <= m
                                      THEN acc + ((x[i] * y[k+1-i]) \div B) ELSE acc,
                       0, Idx(n))
       IN Norm([k \in 1..(n+m) |-> lo[k] + (IF k > 1 THEN hi[k-1] ELSE 0)])

Pow2Small(r) == 2^r       \* r <= 30

\* x * 2^n
Shl(x, n) ==
  IF x = <<>> \/ n = 0 THEN x
  ELSE LET q == n \div LB  r == n % LB
           y == IF r = 0 THEN x ELSE MulSmall(x, Pow2Small(r))
       IN [i \in 1..(Len(y) + q) |-> IF i <= q THEN 0 ELSE y[i - q]]

\* floor(x / 2^n)
Shr(x, n) ==
  LET q == n \div LB  r == n % LB IN
  IF q >= Len(x) THEN <<>>
  ELSE LET m == Len(x) - q
           p == Pow2Small(r)  pc == Pow2Small(LB - r)
       IN Strip([i \in 1..m |-> (x[q+i] \div p) + (At(x, q+i+1) % p) * pc])

\* x mod 2^n
ModPow2(x, n) ==
  LET q == n \div LB  r == n % LB IN
  IF q >= Len(x) THEN x
  ELSE Strip([i \in 1..(q+1) |-> IF i <= q THEN x[i] ELSE x[i] % Pow2Small(r)])

BitLenSmall(v) ==       \* 0 <= v < 2^LB
  FoldLeft(LAMBDA acc, k: IF v >= Pow2Small(k-1) THEN k ELSE acc, 0, Idx(LB))
BitLen(x) == IF x = <<>> THEN 0 ELSE LB * (Len(x) - 1) + BitLenSmall(x[Len(x)])

Bit(x, n) == (At(x, (n \div LB) + 1) \div Pow2Small(n % LB)) % 2
Pow2(n) == Shl(<<1>>, n)
IsOdd(x) == At(x, 1) % 2 = 1

\* number of trailing zero bits (x # 0)
TrailingZeros(x) ==
  LET k == FoldLeft(LAMBDA acc, i: IF acc = 0 /\ x[i] # 0 THEN i ELSE acc, 0, Idx(Len(x)))
      v == x[k]
      t == FoldLeft(LAMBDA acc, j: IF acc = -1 /\ (v \div Pow2Small(j-1)) % 2 = 1 THEN j-1 ELSE acc,
                    -1, Idx(LB))
  IN LB * (k - 1) + t

\* x * 5^n, 5^6 = 15625 per pass
Pow5Mul(x, n) ==
  LET q == n \div 6  r == n % 6
      a == FoldLeft(LAMBDA acc, i: MulSmall(acc, 15625), x, Idx(q))
  IN IF r = 0 THEN a ELSE MulSmall(a, 5^r)
Pow5(n) == Pow5Mul(<<1>>, n)
\* x * 10^n
Pow10Mul(x, n) == Shl(Pow5Mul(x, n), n)
Pow10(n) == Pow10Mul(<<1>>, n)

\* decimal digits (most significant first) -> BigNat
FromDigits(ds) ==
  LET n == Len(ds)  q == n \div 4  r == n % 4
      main == FoldLeft(LAMBDA acc, j: MulSmallAdd(acc, 10000,
                          ds[4*j-3]*1000 + ds[4*j-2]*100 + ds[4*j-1]*10 + ds[4*j]),
                       <<>>, Idx(q))
  IN FoldLeft(LAMBDA acc, j: MulSmallAdd(acc, 10, ds[4*q + j]), main, Idx(r))

\* sign(a*2^ea - b*2^eb) for |ea|, |eb| < 2^29, with a bit-length pre-check so
\* that large exponent gaps cost nothing
CmpScaled(a, ea, b, eb) ==
  IF a = <<>> THEN (IF b = <<>> THEN 0 ELSE -1)
  ELSE IF b = <<>> THEN 1
  ELSE LET la == BitLen(a) + ea  lb == BitLen(b) + eb IN
       IF la < lb THEN -1 ELSE IF la > lb THEN 1
       ELSE IF ea >= eb THEN Cmp(Shl(a, ea - eb), b) ELSE Cmp(a, Shl(b, eb - ea))

\* divide by small m (1 <= m <= 2^16): <<quotient, remainder>>
DivModSmall(x, m) ==
  LET n == Len(x)
      r == FoldLeft(LAMBDA acc, k: LET i == n + 1 - k
                                       cur == acc[1] * B + x[i]
                                   IN <<cur % m, <<cur \div m>> \o acc[2]>>,
                    <<0, <<>>>>, Idx(n))
  IN <<Strip(r[2]), r[1]>>

\* general division by binary long division: <<quotient, remainder>>, y # 0.
\* Slow (one compare/subtract per quotient bit); used only by the
\* constructive rounding definition and the table definitions.
DivMod(x, y) ==
  IF Cmp(x, y) < 0 THEN <<<<>>, x>>
  ELSE LET nb == BitLen(x) - BitLen(y) + 1
           r == FoldLeft(LAMBDA acc, k:
                    LET sh == nb - k
                        t == Shl(y, sh)
                    IN IF Cmp(acc[2], t) >= 0
                       THEN <<Add(acc[1], Pow2(sh)), Sub(acc[2], t)>>
                       ELSE acc,
                    <<<<>>, x>>, Idx(nb))
       IN r

\* decimal digits, most significant first, as 4-digit chunks (first chunk unpadded)
\* (a fold over an upper bound of the chunk count: 4 digits need > 13 bits)
ToChunks(x) ==
  LET nmax == (BitLen(x) \div 13) + 1
      r == FoldLeft(LAMBDA acc, k:
                      IF acc[1] = <<>> THEN acc
                      ELSE LET dm == DivModSmall(acc[1], 10000) IN <<dm[1], <<dm[2]>> \o acc[2]>>,
                    <<x, <<>>>>, Idx(nmax))
  IN r[2]

ChunkDigits(c, pad) ==
  LET d == <<c \div 1000, (c \div 100) % 10, (c \div 10) % 10, c % 10>>
  IN IF pad THEN d
     ELSE IF c >= 1000 THEN d ELSE IF c >= 100 THEN SubSeq(d, 2, 4)
     ELSE IF c >= 10 THEN SubSeq(d, 3, 4) ELSE SubSeq(d, 4, 4)

\* BigNat -> decimal digit sequence (most significant first); 0 -> <<>>
ToDigits(x) ==
  LET ch == ToChunks(x)
  IN IF ch = <<>> THEN <<>>
     ELSE FoldLeft(LAMBDA acc, k: acc \o ChunkDigits(ch[k], k > 1), <<>>, Idx(Len(ch)))

\* a well-formed BigNat
IsBigNat(x) ==
  /\ x \in Seq(0..(B-1))
  /\ (x # <<>> => x[Len(x)] # 0)
=============================================================================
