----------------------------- MODULE RoundLemma -----------------------------
(***************************************************************************)
(* The arithmetic core of rounding::round_nearest_tie_even, over plain      *)
(* integers, for ONE literal shift S (Apalache needs constant exponents;    *)
(* the driver instantiates S = 1 .. 64 by text substitution):               *)
(*     q = m div 2^S,  t = m mod 2^S,  up iff t > 2^(S-1) or (t = 2^(S-1)   *)
(*     and q odd),  r = q + up                                              *)
(* Lemma (for EVERY 64-bit m with the top bit set): r * 2^S is a nearest    *)
(* multiple of 2^S to m, and on a tie r is even; the truncating variant q    *)
(* is the largest multiple not above m.  Checked symbolically by Apalache    *)
(* as an invariant of a one-state system whose initial states are all m.     *)
(***************************************************************************)
EXTENDS Integers

VARIABLE
  \* @type: Int;
  m

P == 2^SHIFT
H == 2^(SHIFT - 1)

Init == m \in 9223372036854775808..18446744073709551615
Next == UNCHANGED m

Q == m \div P
T == m % P
Up == T > H \/ (T = H /\ Q % 2 = 1)
R == IF Up THEN Q + 1 ELSE Q

Nearest ==
  /\ 2 * (R * P - m) <= P
  /\ 2 * (m - R * P) <= P
  /\ (2 * (R * P - m) = P => R % 2 = 0)
  /\ (2 * (m - R * P) = P => R % 2 = 0)
  /\ Q * P <= m /\ m < (Q + 1) * P
=============================================================================
