//! Shared helpers of the conformance harness: NDJSON I/O, limb encoding of wide
//! integers for TLC (base 2^15, little endian), run-length digit strings,
//! a counting allocator and a small seeded PRNG.

use serde_json::{json, Value};
use std::alloc::{GlobalAlloc, Layout, System};
use std::cell::Cell;
use std::io::{BufRead, Write};

pub const LB: u32 = 15;

/// u128 -> little-endian base-2^15 limbs, no high zero limb (0 -> []).
pub fn limbs(mut v: u128) -> Value {
    let mut out = Vec::new();
    while v != 0 {
        out.push(Value::from((v & 0x7fff) as u64));
        v >>= LB;
    }
    Value::Array(out)
}

/// Arbitrary little-endian u64 limbs -> base-2^15 limbs.
pub fn limbs_big(x: &[u64]) -> Value {
    let mut out: Vec<Value> = Vec::new();
    let total_bits = x.len() * 64;
    let mut pos = 0usize;
    while pos < total_bits {
        let limb = pos / 64;
        let off = pos % 64;
        let mut v = x[limb] >> off;
        if off + 15 > 64 && limb + 1 < x.len() {
            v |= x[limb + 1] << (64 - off);
        }
        out.push(Value::from(v & 0x7fff));
        pos += 15;
    }
    while let Some(last) = out.last() {
        if last.as_u64() == Some(0) {
            out.pop();
        } else {
            break;
        }
    }
    Value::Array(out)
}

/// base-2^15 limbs -> u128 (caller guarantees it fits).
pub fn from_limbs(v: &Value) -> u128 {
    let mut r: u128 = 0;
    if let Some(a) = v.as_array() {
        for (i, l) in a.iter().enumerate() {
            r |= (l.as_u64().unwrap() as u128) << (15 * i as u32);
        }
    }
    r
}

/// base-2^15 limbs -> little-endian u64 limbs (normalised: no high zero).
pub fn big_from_limbs(v: &Value) -> Vec<u64> {
    let mut out: Vec<u64> = Vec::new();
    if let Some(a) = v.as_array() {
        for (i, l) in a.iter().enumerate() {
            let val = l.as_u64().unwrap();
            let pos = 15 * i;
            let limb = pos / 64;
            let off = pos % 64;
            while out.len() <= limb + 1 {
                out.push(0);
            }
            out[limb] |= val << off;
            if off + 15 > 64 {
                out[limb + 1] |= val >> (64 - off);
            }
        }
    }
    while out.last() == Some(&0) {
        out.pop();
    }
    out
}

/// Expand a run-length string `[{"d":[..],"n":k},..]` to bytes. `add` is added to
/// every element (48 for digit values, 0 for raw bytes), wrapping.
pub fn expand(segs: &Value, add: u8) -> Vec<u8> {
    let mut out = Vec::new();
    if let Some(a) = segs.as_array() {
        for s in a {
            let d: Vec<u8> = s["d"]
                .as_array()
                .unwrap()
                .iter()
                .map(|x| (x.as_u64().unwrap() as u8).wrapping_add(add))
                .collect();
            let n = s["n"].as_u64().unwrap() as usize;
            if d.len() == 1 {
                out.resize(out.len() + n, d[0]);
            } else {
                for _ in 0..n {
                    out.extend_from_slice(&d);
                }
            }
        }
    }
    out
}

/// Bytes -> run-length segments of element values `b - sub` (wrapping).
pub fn compress(bytes: &[u8], sub: u8) -> Value {
    let mut segs: Vec<Value> = Vec::new();
    let mut i = 0;
    let mut lit: Vec<u64> = Vec::new();
    while i < bytes.len() {
        let b = bytes[i];
        let mut j = i;
        while j < bytes.len() && bytes[j] == b {
            j += 1;
        }
        let run = j - i;
        let v = b.wrapping_sub(sub) as u64;
        if run >= 8 {
            if !lit.is_empty() {
                segs.push(json!({"d": lit, "n": 1}));
                lit = Vec::new();
            }
            segs.push(json!({"d": [v], "n": run}));
        } else {
            for _ in 0..run {
                lit.push(v);
            }
        }
        i = j;
    }
    if !lit.is_empty() {
        segs.push(json!({"d": lit, "n": 1}));
    }
    Value::Array(segs)
}

pub fn read_records(path: &str) -> Vec<Value> {
    let f = std::fs::File::open(path).unwrap_or_else(|e| panic!("open {}: {}", path, e));
    let r = std::io::BufReader::new(f);
    let mut out = Vec::new();
    for line in r.lines() {
        let line = line.unwrap();
        let line = line.trim();
        if line.is_empty() {
            continue;
        }
        out.push(serde_json::from_str(line).unwrap_or_else(|e| panic!("bad json {}: {}", line, e)));
    }
    out
}

pub struct Out {
    w: std::io::BufWriter<std::fs::File>,
}
impl Out {
    pub fn create(path: &str) -> Out {
        Out {
            w: std::io::BufWriter::new(std::fs::File::create(path).unwrap()),
        }
    }
    pub fn line(&mut self, v: &Value) {
        serde_json::to_writer(&mut self.w, v).unwrap();
        self.w.write_all(b"\n").unwrap();
    }
    pub fn flush(&mut self) {
        self.w.flush().unwrap();
    }
}

/// Name of the feature configuration this binary was compiled with.
pub fn cfg_name() -> String {
    let mut v: Vec<&str> = Vec::new();
    if cfg!(feature = "std") {
        v.push("std");
    }
    if cfg!(feature = "compact") {
        v.push("compact");
    }
    if cfg!(feature = "alloc") {
        v.push("alloc");
    }
    if v.is_empty() {
        "none".to_string()
    } else {
        v.join("+")
    }
}

// ---------------------------------------------------------------- time limits

/// Run `f` on a thread of its own and wait at most `secs` seconds for it.  `None` means the call did not return in
/// time (the thread is abandoned; it keeps spinning until the process exits).  A call that never returns on a valid
/// input is data, like a panic.
pub fn call_with_limit<T: Send + 'static>(secs: u64, f: impl FnOnce() -> T + Send + 'static) -> Option<T> {
    let (tx, rx) = std::sync::mpsc::channel();
    std::thread::spawn(move || {
        let _ = tx.send(f());
    });
    rx.recv_timeout(std::time::Duration::from_secs(secs)).ok()
}

/// Watchdog for sequential drivers that write begin markers: `tick()` at the start of every record; if no tick
/// arrives for `secs` seconds the process exits with status 3 (the driver attributes it to the record whose begin
/// marker has no result).
pub struct Watchdog {
    last: std::sync::Arc<std::sync::atomic::AtomicU64>,
    t0: std::time::Instant,
}
impl Watchdog {
    pub fn start(secs: u64) -> Watchdog {
        let last = std::sync::Arc::new(std::sync::atomic::AtomicU64::new(0));
        let t0 = std::time::Instant::now();
        let l2 = last.clone();
        std::thread::spawn(move || loop {
            std::thread::sleep(std::time::Duration::from_millis(500));
            let now = t0.elapsed().as_secs();
            let seen = l2.load(std::sync::atomic::Ordering::Relaxed);
            if now > seen + secs {
                eprintln!("HANG: no record finished for {} s", secs);
                std::process::exit(3);
            }
        });
        Watchdog { last, t0 }
    }
    pub fn tick(&self) {
        self.last.store(self.t0.elapsed().as_secs(), std::sync::atomic::Ordering::Relaxed);
    }
}

// ---------------------------------------------------------------- allocator

thread_local! {
    static ALLOCS: Cell<u64> = const { Cell::new(0) };
}

/// Counting allocator: per-thread number of allocation requests
/// (alloc, alloc_zeroed, realloc).
pub struct Counting;

unsafe impl GlobalAlloc for Counting {
    unsafe fn alloc(&self, l: Layout) -> *mut u8 {
        let _ = ALLOCS.try_with(|c| c.set(c.get() + 1));
        System.alloc(l)
    }
    unsafe fn dealloc(&self, p: *mut u8, l: Layout) {
        System.dealloc(p, l)
    }
    unsafe fn alloc_zeroed(&self, l: Layout) -> *mut u8 {
        let _ = ALLOCS.try_with(|c| c.set(c.get() + 1));
        System.alloc_zeroed(l)
    }
    unsafe fn realloc(&self, p: *mut u8, l: Layout, n: usize) -> *mut u8 {
        let _ = ALLOCS.try_with(|c| c.set(c.get() + 1));
        System.realloc(p, l, n)
    }
}

pub fn alloc_count() -> u64 {
    ALLOCS.with(|c| c.get())
}

// --------------------------------------------------------------------- PRNG

/// splitmix64 / xorshift: deterministic, seedable, no dependency.
pub struct Rng(pub u64);
impl Rng {
    pub fn new(seed: u64) -> Rng {
        Rng(seed ^ 0x9E3779B97F4A7C15)
    }
    pub fn next(&mut self) -> u64 {
        self.0 = self.0.wrapping_add(0x9E3779B97F4A7C15);
        let mut z = self.0;
        z = (z ^ (z >> 30)).wrapping_mul(0xBF58476D1CE4E5B9);
        z = (z ^ (z >> 27)).wrapping_mul(0x94D049BB133111EB);
        z ^ (z >> 31)
    }
    pub fn below(&mut self, n: u64) -> u64 {
        if n == 0 {
            0
        } else {
            self.next() % n
        }
    }
    pub fn pick<'a, T>(&mut self, xs: &'a [T]) -> &'a T {
        &xs[self.below(xs.len() as u64) as usize]
    }
}

pub fn arg_value(args: &[String], name: &str) -> Option<String> {
    args.iter().position(|a| a == name).and_then(|i| args.get(i + 1).cloned())
}
pub fn arg_flag(args: &[String], name: &str) -> bool {
    args.iter().any(|a| a == name)
}
