//! run_parts: dumps / evaluates the component-level observables.
//!
//!   --mode tables --out F             every power constant reachable in this configuration (C14)
//!   --mode fields --in F --out F      Float helpers, b/bh, extended_to_float on bit patterns (C17)
//!   --mode round  --in F --out F      rounding::round with the nearest-even / truncating callbacks (C18)
//!   --mode masks  --out F             mask helpers for n = 0..=64 (C18)

use minimal_lexical::extended_float::{extended_to_float, ExtendedFloat};
use minimal_lexical::Float;
use serde_json::{json, Value};
use std::panic::{catch_unwind, AssertUnwindSafe};
use verif_harness::*;

fn fbits<F: Float>(x: F) -> Value {
    limbs(x.to_bits() as u128)
}

fn tables(out: &mut Out) {
    let cfg = cfg_name();
    let mut emit = |name: &str, index: i64, value: Value| {
        out.line(&json!({"t": "table", "cfg": cfg, "name": name, "index": index, "value": value}));
    };
    #[cfg(not(feature = "compact"))]
    {
        use minimal_lexical::table::*;
        for (i, (hi, lo)) in POWER_OF_FIVE_128.iter().enumerate() {
            let q = i as i64 + SMALLEST_POWER_OF_FIVE as i64;
            emit("p5_hi", q, limbs(*hi as u128));
            emit("p5_lo", q, limbs(*lo as u128));
        }
        emit("p5_min", 0, json!(SMALLEST_POWER_OF_FIVE));
        emit("p5_max", 0, json!(LARGEST_POWER_OF_FIVE));
        emit("p5_len", 0, json!(POWER_OF_FIVE_128.len()));
        for (k, v) in SMALL_INT_POW5.iter().enumerate() {
            emit("int_pow5", k as i64, limbs(*v as u128));
        }
        for (k, v) in SMALL_INT_POW10.iter().enumerate() {
            emit("int_pow10", k as i64, limbs(*v as u128));
        }
        for k in 0..=10usize {
            emit("f32_pow10", k as i64, fbits(SMALL_F32_POW10[k]));
        }
        for k in 0..=22usize {
            emit("f64_pow10", k as i64, fbits(SMALL_F64_POW10[k]));
        }
        let lp: Vec<u64> = LARGE_POW5.iter().map(|x| *x as u64).collect();
        emit("large_pow5", 0, limbs_big(&lp));
        emit("large_pow5_step", 0, json!(LARGE_POW5_STEP));
    }
    #[cfg(feature = "compact")]
    {
        use minimal_lexical::table::BASE10_POWERS;
        for i in 0..BASE10_POWERS.small.len() {
            let fp = BASE10_POWERS.get_small(i);
            emit("b_small", i as i64, limbs(fp.mant as u128));
            emit("b_small_exp", i as i64, json!(fp.exp));
            emit("b_small_int", i as i64, limbs(BASE10_POWERS.get_small_int(i) as u128));
        }
        for j in 0..BASE10_POWERS.large.len() {
            let fp = BASE10_POWERS.get_large(j);
            emit("b_large", j as i64, limbs(fp.mant as u128));
            emit("b_large_exp", j as i64, json!(fp.exp));
        }
        emit("b_step", 0, json!(BASE10_POWERS.step));
        emit("b_bias", 0, json!(BASE10_POWERS.bias));
        emit("b_small_len", 0, json!(BASE10_POWERS.small.len()));
        emit("b_large_len", 0, json!(BASE10_POWERS.large.len()));
        emit("b_small_int_len", 0, json!(BASE10_POWERS.small_int.len()));
    }
    // what the algorithms actually consume, through the accessor functions
    for k in 0..=10usize {
        emit("fn_f32_pow10", k as i64, fbits(unsafe { <f32 as Float>::pow_fast_path(k) }));
    }
    for k in 0..=22usize {
        emit("fn_f64_pow10", k as i64, fbits(unsafe { <f64 as Float>::pow_fast_path(k) }));
    }
    #[cfg(feature = "verif")]
    {
        for k in 0..28usize {
            emit("fn_int_pow5", k as i64, limbs(unsafe { minimal_lexical::num::verif_int_pow_fast_path(k, true) } as u128));
        }
        for k in 0..20usize {
            emit("fn_int_pow10", k as i64, limbs(unsafe { minimal_lexical::num::verif_int_pow_fast_path(k, false) } as u128));
        }
    }
    #[cfg(all(not(feature = "std"), feature = "compact"))]
    {
        for k in 0..=10usize {
            emit("libm_powf", k as i64, fbits(minimal_lexical::libm::powf(10.0f32, k as f32)));
        }
        for k in 0..=22usize {
            emit("libm_powd", k as i64, fbits(minimal_lexical::libm::powd(10.0f64, k as f64)));
        }
    }
}

fn fields_one<F: Float>(bits: u64) -> Value {
    let x = F::from_bits(bits);
    let b = minimal_lexical::slow::b(x);
    let bh = minimal_lexical::slow::bh(x);
    json!({
        "is_denormal": x.is_denormal(),
        "exponent": x.exponent(),
        "mantissa": limbs(x.mantissa() as u128),
        "roundtrip": limbs(F::from_bits(x.to_bits()).to_bits() as u128),
        "b_mant": limbs(b.mant as u128), "b_exp": b.exp,
        "bh_mant": limbs(bh.mant as u128), "bh_exp": bh.exp,
    })
}

fn pack_one<F: Float>(ef: i32, frac: u64) -> Value {
    limbs(extended_to_float::<F>(ExtendedFloat {
        mant: frac,
        exp: ef,
    })
    .to_bits() as u128)
}

fn round_one<F: Float>(mant: u64, exp: i32, variant: &str) -> Value {
    use minimal_lexical::rounding::{round, round_down, round_nearest_tie_even};
    let mut fp = ExtendedFloat {
        mant,
        exp,
    };
    let r = catch_unwind(AssertUnwindSafe(|| {
        if variant == "nearest" {
            round::<F, _>(&mut fp, |f, s| {
                round_nearest_tie_even(f, s, |is_odd, is_halfway, is_above| is_above || (is_odd && is_halfway));
            });
        } else {
            round::<F, _>(&mut fp, round_down);
        }
        fp
    }));
    match r {
        Ok(fp) => json!({"kind": "value", "mant": limbs(fp.mant as u128), "exp": fp.exp,
                         "packed": limbs(extended_to_float::<F>(fp).to_bits() as u128)}),
        Err(_) => json!({"kind": "panic", "mant": [], "exp": 0, "packed": []}),
    }
}

fn main() {
    let args: Vec<String> = std::env::args().collect();
    let mode = arg_value(&args, "--mode").expect("--mode");
    let outp = arg_value(&args, "--out").expect("--out");
    std::panic::set_hook(Box::new(|_| {}));
    let mut out = Out::create(&outp);
    match mode.as_str() {
        "tables" => tables(&mut out),
        "masks" => {
            use minimal_lexical::mask::*;
            for n in 0..=64u64 {
                out.line(&json!({"t": "mask", "id": n + 1, "n": n, "mask": limbs(lower_n_mask(n) as u128),
                                 "halfway": limbs(lower_n_halfway(n) as u128),
                                 "nth": if n < 64 { limbs(nth_bit(n) as u128) } else { json!([]) }}));
            }
        },
        "fields" => {
            let inp = arg_value(&args, "--in").expect("--in");
            for r in read_records(&inp) {
                let mut o = r.clone();
                let f32_ = r["fmt"].as_str().unwrap() == "f32";
                if r["t"].as_str().unwrap() == "field" {
                    let bits = from_limbs(&r["bits"]) as u64;
                    o["res"] = if f32_ { fields_one::<f32>(bits) } else { fields_one::<f64>(bits) };
                } else {
                    let ef = r["ef"].as_i64().unwrap() as i32;
                    let frac = from_limbs(&r["frac"]) as u64;
                    o["res"] = if f32_ { pack_one::<f32>(ef, frac) } else { pack_one::<f64>(ef, frac) };
                }
                out.line(&o);
            }
        },
        "round" => {
            let inp = arg_value(&args, "--in").expect("--in");
            for r in read_records(&inp) {
                let mut o = r.clone();
                let mant = from_limbs(&r["mant"]) as u64;
                let exp = r["exp"].as_i64().unwrap() as i32;
                let v = r["variant"].as_str().unwrap();
                o["res"] = if r["fmt"].as_str().unwrap() == "f32" {
                    round_one::<f32>(mant, exp, v)
                } else {
                    round_one::<f64>(mant, exp, v)
                };
                out.line(&o);
            }
        },
        _ => panic!("unknown mode"),
    }
    out.flush();
}
