//! gen_render: render floats with Rust's formatter three ways and emit them as
//! parse inputs (C03).  The renderings are NOT trusted: TLC re-validates that
//! each one denotes a value that rounds to (or, for "exact", equals) the float.
//!
//! Input:  {"fmt":"f32"|"f64","bits":[limbs]}
//! Output: three parse inputs per float:
//!   {"id","fmt","int","frac","exp","expect":[limbs],"render":"shortest"|"digits17"|"exact"}

use serde_json::{json, Value};
use verif_harness::*;

/// "d.ddddde-7" -> (int digits, frac digits, exp)
fn split_sci(s: &str) -> (Vec<u8>, Vec<u8>, i32) {
    let (mant, exp) = s.split_once('e').expect("no exponent");
    let exp: i32 = exp.parse().unwrap();
    let (i, f) = match mant.split_once('.') {
        Some((i, f)) => (i, f),
        None => (mant, ""),
    };
    let mut ib: Vec<u8> = i.bytes().collect();
    // strip leading zeros of the integer part ("0" -> ""), trailing zeros of the fraction
    while ib.first() == Some(&b'0') {
        ib.remove(0);
    }
    let mut fb: Vec<u8> = f.bytes().collect();
    while fb.last() == Some(&b'0') {
        fb.pop();
    }
    (ib, fb, exp)
}

fn main() {
    let args: Vec<String> = std::env::args().collect();
    let inp = arg_value(&args, "--in").expect("--in");
    let outp = arg_value(&args, "--out").expect("--out");
    let mut out = Out::create(&outp);
    let mut id = 0u64;
    for r in read_records(&inp) {
        let bits = from_limbs(&r["bits"]) as u64;
        let fmt = r["fmt"].as_str().unwrap();
        let rend: Vec<(&str, String)> = if fmt == "f32" {
            let x = f32::from_bits(bits as u32);
            vec![("shortest", format!("{:e}", x)), ("digits9", format!("{:.8e}", x)), ("exact", format!("{:.160e}", x))]
        } else {
            let x = f64::from_bits(bits);
            vec![("shortest", format!("{:e}", x)), ("digits17", format!("{:.16e}", x)), ("exact", format!("{:.800e}", x))]
        };
        // optional "only": "shortest" restricts the renderings (large families of short floats)
        let only = r.get("only").and_then(|v| v.as_str()).map(|s| s.to_string());
        for (kind, s) in rend {
            if let Some(o) = &only {
                if o != kind {
                    continue;
                }
            }
            let (i, f, e) = split_sci(&s);
            id += 1;
            out.line(&json!({"id": id, "fmt": fmt, "int": compress(&i, 48), "frac": compress(&f, 48), "exp": e,
                             "expect": limbs(bits as u128), "render": kind}));
        }
    }
    out.flush();
}
