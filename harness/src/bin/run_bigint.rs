//! run_bigint: single big-integer operations of `minimal_lexical::bigint` on
//! given operands, in the vector back-end of this configuration (C12).
//!
//! Input:  {"id","op","x":[[limb]..],"y":[[limb]..],"n":int}
//! Output: input + {"backend","compact","res":{"r":"ok"|"none"|"panic","v":[[limb]..],"k":int,"h":[limb],"s":bool}}
//!   v = contents of x after the operation (or of the returned vector), k = integer result
//!   (compare: -1/0/1, bit_length, leading_zeros), h/s = hi64 result.

use minimal_lexical::bigint::{self, Bigint, Limb, VecType};
use serde_json::{json, Value};
use std::cmp::Ordering;
use std::panic::{catch_unwind, AssertUnwindSafe};
use verif_harness::*;

fn lv(x: Limb) -> Value {
    limbs(x as u128)
}
fn contents(v: &[Limb]) -> Value {
    Value::Array(v.iter().map(|x| lv(*x)).collect())
}
fn slice_of(v: &Value) -> Vec<Limb> {
    v.as_array().map(|a| a.iter().map(|l| from_limbs(l) as Limb).collect()).unwrap_or_default()
}
fn opt(r: Option<()>) -> &'static str {
    if r.is_some() {
        "ok"
    } else {
        "none"
    }
}

fn one(r: &Value) -> Value {
    let op = r["op"].as_str().unwrap();
    let xs = slice_of(&r["x"]);
    let ys = slice_of(&r["y"]);
    let n = r["n"].as_u64().unwrap_or(0) as usize;
    // the hi64 building blocks (both limb widths are compiled on every target): limbs most significant first
    if op.starts_with("u32_hi64") || op.starts_with("u64_hi64") {
        let (h, s) = match op {
            "u32_hi64_1" => bigint::u32_to_hi64_1(xs[0] as u32),
            "u32_hi64_2" => bigint::u32_to_hi64_2(xs[0] as u32, xs[1] as u32),
            "u32_hi64_3" => bigint::u32_to_hi64_3(xs[0] as u32, xs[1] as u32, xs[2] as u32),
            "u64_hi64_1" => bigint::u64_to_hi64_1(xs[0] as u64),
            _ => bigint::u64_to_hi64_2(xs[0] as u64, xs[1] as u64),
        };
        return json!({"r": "ok", "v": [], "k": 0, "h": limbs(h as u128), "s": s});
    }
    let mut x = match VecType::try_from(&xs) {
        Some(v) => v,
        None => return json!({"r": "skip", "v": [], "k": 0, "h": [], "s": false}),
    };
    let mut k: i64 = 0;
    let mut h: u64 = 0;
    let mut s = false;
    let res: &str = match op {
        "small_add" => opt(bigint::small_add(&mut x, ys[0])),
        "small_mul" => opt(bigint::small_mul(&mut x, ys[0])),
        "large_add_from" => opt(bigint::large_add_from(&mut x, &ys, n)),
        "long_mul" => match bigint::long_mul(&xs, &ys) {
            Some(z) => {
                x = z;
                "ok"
            },
            None => "none",
        },
        "large_mul" => opt(bigint::large_mul(&mut x, &ys)),
        "large_add" => opt(bigint::large_add(&mut x, &ys)),
        // the operator forms (they unwrap: an overflow is reported by a panic, which the caller of `one` records)
        "mul_assign" => {
            x *= &ys[..];
            "ok"
        },
        "bigint_mul_assign" => {
            let mut a = Bigint {
                data: std::mem::replace(&mut x, VecType::new()),
            };
            let b = Bigint {
                data: VecType::try_from(&ys).expect("operand fits"),
            };
            a *= &b;
            x = a.data;
            "ok"
        },
        "pow5" => opt(bigint::pow(&mut x, n as u32)),
        "shl" => opt(bigint::shl(&mut x, n)),
        "shl_bits" => opt(bigint::shl_bits(&mut x, n)),
        "shl_limbs" => opt(bigint::shl_limbs(&mut x, n)),
        "bigint_pow10" | "bigint_pow2" | "bigint_pow5" => {
            let base = match op {
                "bigint_pow10" => 10,
                "bigint_pow2" => 2,
                _ => 5,
            };
            // move (not clone): a cloned HeapVec has capacity == len
            let mut b = Bigint {
                data: std::mem::replace(&mut x, VecType::new()),
            };
            let r = b.pow(base, n as u32);
            x = b.data;
            opt(r)
        },
        "compare" => {
            k = match bigint::compare(&xs, &ys) {
                Ordering::Less => -1,
                Ordering::Equal => 0,
                Ordering::Greater => 1,
            };
            "ok"
        },
        "hi64" => {
            let t = bigint::hi64(&xs);
            h = t.0;
            s = t.1;
            "ok"
        },
        "bit_length" => {
            k = bigint::bit_length(&xs) as i64;
            "ok"
        },
        "normalize" => {
            bigint::normalize(&mut x);
            "ok"
        },
        "from_u64" => {
            x = bigint::from_u64(ys[0] as u64);
            "ok"
        },
        _ => panic!("unknown op"),
    };
    json!({"r": res, "v": contents(&x), "k": k, "h": limbs(h as u128), "s": s})
}

fn main() {
    let args: Vec<String> = std::env::args().collect();
    let inp = arg_value(&args, "--in").expect("--in");
    let outp = arg_value(&args, "--out").expect("--out");
    std::panic::set_hook(Box::new(|_| {}));
    let mut out = Out::create(&outp);
    let backend = if cfg!(feature = "alloc") { "heap" } else { "stack" };
    let limit: u64 = std::env::var("VERIF_HANG_SECS").ok().and_then(|s| s.parse().ok()).unwrap_or(60);
    for r in read_records(&inp) {
        // an operation that does not return within VERIF_HANG_SECS (default 60 s) is data: r = "hang"
        let r2 = r.clone();
        let res = match call_with_limit(limit, move || catch_unwind(AssertUnwindSafe(|| one(&r2)))) {
            Some(Ok(v)) => v,
            Some(Err(_)) => json!({"r": "panic", "v": [], "k": 0, "h": [], "s": false}),
            None => json!({"r": "hang", "v": [], "k": 0, "h": [], "s": false}),
        };
        let mut o = r.clone();
        o["backend"] = json!(backend);
        o["compact"] = json!(cfg!(feature = "compact"));
        o["res"] = res;
        out.line(&o);
    }
    out.flush();
}
