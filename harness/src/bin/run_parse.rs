//! run_parse: call `minimal_lexical::parse_float` on every record of an NDJSON
//! file and write one NDJSON record per input with everything observable:
//! outcome (value bits | panic), allocation count, and -- through the `verif`
//! hook and doc-hidden API, for coverage accounting only -- the Number fields
//! and the internal path.
//!
//! usage: run_parse --in FILE --out FILE [--threads N] [--poison]
//!
//! Input record: {"id":n,"fmt":"f32"|"f64","int":[seg..],"frac":[seg..],"exp":e,
//!                "raw":bool?,"shape":k?}
//!   seg = {"d":[v..],"n":r}; element values are digit values (48 is added)
//!   unless "raw" is true (bytes as they are).
//!   shape: iterator adaptor shape 0..9 (C16); default 0 = slice iterators; 7, 8 are not fused; 9 = slices at odd addresses.

use minimal_lexical::Float;
use serde_json::{json, Value};
use std::collections::VecDeque;
use std::panic::{catch_unwind, AssertUnwindSafe};
use verif_harness::*;

#[global_allocator]
static A: Counting = Counting;

/// A hand-written cloneable iterator with an uninformative size_hint.
#[derive(Clone)]
struct Plain<'a> {
    s: &'a [u8],
    i: usize,
}
impl<'a> Iterator for Plain<'a> {
    type Item = &'a u8;
    fn next(&mut self) -> Option<&'a u8> {
        let r = self.s.get(self.i);
        self.i += 1;
        r
    }
    fn size_hint(&self) -> (usize, Option<usize>) {
        (0, None)
    }
}

/// An iterator that is NOT fused: it answers None when it meets `stop` (consuming it) and would continue with the
/// bytes behind it if polled again.  The Iterator contract allows that; parse_float must not poll after None.
#[derive(Clone)]
struct Segmented<'a> {
    s: &'a [u8],
    i: usize,
    stop: u8,
}
impl<'a> Iterator for Segmented<'a> {
    type Item = &'a u8;
    fn next(&mut self) -> Option<&'a u8> {
        let r = self.s.get(self.i)?;
        self.i += 1;
        if *r == self.stop {
            None
        } else {
            Some(r)
        }
    }
}

fn call<F: Float>(int: &[u8], frac: &[u8], exp: i32, shape: u64) -> F {
    match shape {
        0 => minimal_lexical::parse_float::<F, _, _>(int.iter(), frac.iter(), exp),
        1 => {
            let (a, b) = int.split_at(int.len() / 2);
            let (c, d) = frac.split_at(frac.len() / 3);
            minimal_lexical::parse_float::<F, _, _>(a.iter().chain(b.iter()), c.iter().chain(d.iter()), exp)
        },
        2 => minimal_lexical::parse_float::<F, _, _>(
            int.iter().filter(|_| true),
            frac.iter().filter(|_| true),
            exp,
        ),
        3 => minimal_lexical::parse_float::<F, _, _>(
            int.iter().skip(0).step_by(1),
            frac.iter().skip(0).step_by(1),
            exp,
        ),
        4 => {
            let mut a: VecDeque<u8> = VecDeque::with_capacity(int.len() + 7);
            // rotate the ring buffer so that the contents wrap around
            for _ in 0..5 {
                a.push_back(0);
            }
            for _ in 0..5 {
                a.pop_front();
            }
            a.extend(int.iter().copied());
            let b: VecDeque<u8> = frac.iter().copied().collect();
            minimal_lexical::parse_float::<F, _, _>(a.iter(), b.iter(), exp)
        },
        5 => minimal_lexical::parse_float::<F, _, _>(
            Plain {
                s: int,
                i: 0,
            },
            Plain {
                s: frac,
                i: 0,
            },
            exp,
        ),
        6 => minimal_lexical::parse_float::<F, _, _>(int.iter().rev().rev(), frac.iter().rev().rev(), exp),
        7 => {
            // NOT fused: the integer iterator walks "int . frac" and answers None at the '.', after which it would go on
            // with the fraction digits; the fraction iterator walks "frac e 7777" and would go on with the sevens
            let mut a: Vec<u8> = int.to_vec();
            a.push(b'.');
            a.extend_from_slice(frac);
            let mut b: Vec<u8> = frac.to_vec();
            b.push(b'e');
            b.extend_from_slice(b"7777777777777777777777");
            minimal_lexical::parse_float::<F, _, _>(
                Segmented {
                    s: &a,
                    i: 0,
                    stop: b'.',
                },
                Segmented {
                    s: &b,
                    i: 0,
                    stop: b'e',
                },
                exp,
            )
        },
        9 => {
            // slices that start at ODD / changing addresses (a Vec's buffer is always well aligned, so shape 0 never
            // exercises alignment-dependent code): the digits are copied to offset 1 + len % 7 of a fresh buffer
            let oi = 1 + int.len() % 7;
            let of = 1 + (frac.len() + 3) % 7;
            let mut a = vec![b'9'; oi];
            a.extend_from_slice(int);
            a.push(b'9');
            let mut b = vec![b'9'; of];
            b.extend_from_slice(frac);
            b.push(b'9');
            minimal_lexical::parse_float::<F, _, _>(a[oi..oi + int.len()].iter(), b[of..of + frac.len()].iter(), exp)
        },
        10 => {
            // one DECISIVE digit (the last non-zero one, else the last) comes from somewhere else: the buffer holds a different
            // byte at that place, the iterator yields the right one through `chain(once)`.  The chain is exact-sized and its
            // first and last items are len - 1 bytes apart in one allocation - it only LOOKS like a slice
            fn subst(s: &[u8]) -> (Vec<u8>, usize) {
                let k = s.iter().rposition(|&c| c != b'0').unwrap_or(s.len().saturating_sub(1));
                let mut b = s.to_vec();
                if !b.is_empty() {
                    b[k] = if s[k] == b'0' { b'5' } else { b'0' };
                }
                (b, k)
            }
            let (a, ka) = subst(int);
            let (b, kb) = subst(frac);
            let ia = a[..ka.min(a.len())].iter().chain(int.get(ka).into_iter()).chain(a[(ka + 1).min(a.len())..].iter());
            let ib = b[..kb.min(b.len())].iter().chain(frac.get(kb).into_iter()).chain(b[(kb + 1).min(b.len())..].iter());
            minimal_lexical::parse_float::<F, _, _>(ia, ib, exp)
        },
        _ => {
            // the same with std adaptors (map_while is not fused either)
            let mut a: Vec<u8> = int.to_vec();
            a.push(b'.');
            a.extend_from_slice(frac);
            let mut b: Vec<u8> = frac.to_vec();
            b.push(b'e');
            b.extend_from_slice(b"3333333333333333333333");
            minimal_lexical::parse_float::<F, _, _>(
                a.iter().map_while(|c| if *c == b'.' { None } else { Some(c) }),
                b.iter().map_while(|c| if *c == b'e' { None } else { Some(c) }),
                exp,
            )
        },
    }
}

#[inline(never)]
fn poison_stack(depth: u32, fill: u8) -> u64 {
    // Fill ~64 KiB of stack with a pattern; the result is consumed so that the
    // writes are not optimised out.
    let mut buf = [fill; 4096];
    let mut s = 0u64;
    if depth > 0 {
        s = s.wrapping_add(poison_stack(depth - 1, fill.wrapping_add(1)));
    }
    for (i, b) in buf.iter_mut().enumerate() {
        *b = b.wrapping_add(i as u8);
    }
    for b in std::hint::black_box(&buf).iter() {
        s = s.wrapping_add(*b as u64);
    }
    s
}

#[cfg(feature = "verif")]
fn internals<F: Float>(int: &[u8], frac: &[u8], exp: i32, rec: &mut Value) {
    use minimal_lexical::parse::{moderate_path, verif_parse_number};
    let r = catch_unwind(AssertUnwindSafe(|| {
        let num = verif_parse_number(int.iter(), frac.iter(), exp);
        let numj = json!({"mant": limbs(num.mantissa as u128), "exp": num.exponent, "many": num.many_digits});
        if num.try_fast_path::<F>().is_some() {
            return (numj, "fast".to_string(), json!({"mant": [], "exp": 0}));
        }
        let fp = moderate_path::<F>(&num);
        if fp.exp >= 0 {
            (numj, "moderate".to_string(), json!({"mant": limbs(fp.mant as u128), "exp": fp.exp}))
        } else {
            (numj, "slow".to_string(), json!({"mant": limbs(fp.mant as u128), "exp": fp.exp - F::INVALID_FP}))
        }
    }));
    if let Ok((numj, path, est)) = r {
        rec["num"] = numj;
        rec["path"] = Value::from(path);
        rec["mod"] = est;
    } else {
        rec["path"] = Value::from("panic");
        rec["num"] = json!({"mant": [], "exp": 0, "many": false});
        rec["mod"] = json!({"mant": [], "exp": 0});
    }
}
#[cfg(not(feature = "verif"))]
fn internals<F: Float>(_int: &[u8], _frac: &[u8], _exp: i32, rec: &mut Value) {
    rec["path"] = Value::from("unknown");
    rec["num"] = json!({"mant": [], "exp": 0, "many": false});
    rec["mod"] = json!({"mant": [], "exp": 0});
}

fn run_one(rec: &Value, poison: bool, with_internals: bool) -> Value {
    let raw = rec.get("raw").and_then(|v| v.as_bool()).unwrap_or(false);
    let add = if raw {
        0
    } else {
        48
    };
    let int = expand(&rec["int"], add);
    let frac = expand(&rec["frac"], add);
    let exp = rec["exp"].as_i64().unwrap() as i32;
    let shape = rec.get("shape").and_then(|v| v.as_u64()).unwrap_or(0);
    let fmt = rec["fmt"].as_str().unwrap().to_string();
    let mut out = rec.clone();
    if poison {
        let fill = (rec["id"].as_u64().unwrap_or(0) as u8) | 0xA5;
        std::hint::black_box(poison_stack(14, fill));
    }
    let before = alloc_count();
    let res: Result<u64, ()> = if fmt == "f32" {
        catch_unwind(AssertUnwindSafe(|| call::<f32>(&int, &frac, exp, shape).to_bits() as u64)).map_err(|_| ())
    } else {
        catch_unwind(AssertUnwindSafe(|| call::<f64>(&int, &frac, exp, shape).to_bits())).map_err(|_| ())
    };
    let after = alloc_count();
    match res {
        Ok(bits) => {
            out["out"] = json!({"kind": "value", "bits": limbs(bits as u128)});
        },
        Err(()) => {
            out["out"] = json!({"kind": "panic", "bits": []});
        },
    }
    // allocations of shapes 4, 7, 8, 9 (they build their own buffers) and of a panic payload are the harness's own
    out["allocs"] = Value::from(if shape == 4 || shape >= 7 || res.is_err() { 0 } else { after - before });
    out["cfg"] = Value::from(cfg_name());
    if with_internals {
        if fmt == "f32" {
            internals::<f32>(&int, &frac, exp, &mut out);
        } else {
            internals::<f64>(&int, &frac, exp, &mut out);
        }
    }
    out
}

fn main() {
    let args: Vec<String> = std::env::args().collect();
    if arg_flag(&args, "--one") {
        // child of --fresh: one record on stdin, its output record on stdout
        std::panic::set_hook(Box::new(|_| {}));
        let mut line = String::new();
        std::io::stdin().read_line(&mut line).unwrap();
        let r: Value = serde_json::from_str(&line).expect("record");
        println!("{}", run_one(&r, false, true));
        return;
    }
    let inp = arg_value(&args, "--in").expect("--in");
    let outp = arg_value(&args, "--out").expect("--out");
    let threads: usize = arg_value(&args, "--threads").map(|s| s.parse().unwrap()).unwrap_or(1);
    let poison = arg_flag(&args, "--poison");
    let quiet_panics = !arg_flag(&args, "--show-panics");
    let markers = arg_flag(&args, "--markers");
    // --hammer R: with --threads T, thread t owns the records with index = t (mod T) and parses them R times
    // round-robin, so that different threads are inside the same code with DIFFERENT inputs at the same time
    let hammer: usize = arg_value(&args, "--hammer").map(|s| s.parse().unwrap()).unwrap_or(0);
    let compress = arg_flag(&args, "--compress");
    if quiet_panics {
        std::panic::set_hook(Box::new(|_| {}));
    }
    let recs = read_records(&inp);
    let mut out = Out::create(&outp);
    if arg_flag(&args, "--fresh") {
        // every record in a PROCESS OF ITS OWN (no earlier call, no other thread, fresh statics and thread-locals):
        // the reference for "a pure function of the bytes and the exponent"
        use std::io::Write;
        use std::process::{Command, Stdio};
        let exe = std::env::current_exe().unwrap();
        let recs = std::sync::Arc::new(recs);
        let workers = 8usize;
        let mut handles = Vec::new();
        for t in 0..workers {
            let recs = recs.clone();
            let exe = exe.clone();
            handles.push(std::thread::spawn(move || {
                let mut v = Vec::new();
                for k in (t..recs.len()).step_by(workers) {
                    let mut child = Command::new(&exe).arg("--one").stdin(Stdio::piped()).stdout(Stdio::piped()).spawn().expect("spawn");
                    {
                        let mut si = child.stdin.take().unwrap();
                        writeln!(si, "{}", recs[k]).unwrap();
                    }
                    let o = child.wait_with_output().expect("child");
                    let text = String::from_utf8_lossy(&o.stdout).to_string();
                    let val: Value = serde_json::from_str(text.trim()).unwrap_or_else(|_| json!({"id": recs[k]["id"], "out": {"kind": "died", "bits": []}}));
                    v.push((k, val));
                }
                v
            }));
        }
        let mut all: Vec<(usize, Value)> = Vec::new();
        for h in handles {
            all.extend(h.join().unwrap());
        }
        all.sort_by_key(|x| x.0);
        for (_, o) in all {
            out.line(&o);
        }
        out.flush();
        return;
    }
    if threads <= 1 {
        // with markers, a record that does not finish within VERIF_HANG_SECS (default 120 s; the slowest legitimate
        // record takes well under a second) ends the process with status 3: attributed like a process death
        let limit: u64 = std::env::var("VERIF_HANG_SECS").ok().and_then(|s| s.parse().ok()).unwrap_or(120);
        let dog = if markers { Some(Watchdog::start(limit)) } else { None };
        for r in &recs {
            if let Some(d) = &dog {
                d.tick();
            }
            if markers {
                // begin marker, flushed: a process death is attributed to this record
                out.line(&json!({"begin": r["id"]}));
                out.flush();
            }
            let o = run_one(r, poison, true);
            out.line(&o);
        }
    } else {
        // every thread runs every record (in a different rotation); events carry
        // thread id and a per-thread sequence number
        let recs = std::sync::Arc::new(recs);
        let mut handles = Vec::new();
        // all threads make their FIRST call at the same moment (a race in lazily initialised data shows at first use only)
        let gate = std::sync::Arc::new(std::sync::Barrier::new(threads));
        for t in 0..threads {
            let recs = recs.clone();
            let gate = gate.clone();
            handles.push(std::thread::spawn(move || {
                let n = recs.len();
                let mut v = Vec::with_capacity(n);
                gate.wait();
                if hammer > 0 {
                    let mine: Vec<usize> = (0..n).filter(|i| i % threads == t).collect();
                    let mut seq = 0usize;
                    // with --compress only the first call of every input and every call whose outcome differs from
                    // the previous call of the same input are written (every deviation is kept, the bulk is not)
                    let mut last: std::collections::HashMap<usize, (Value, Value)> = std::collections::HashMap::new();
                    for round in 0..hammer {
                        for &idx in &mine {
                            let mut r = recs[idx].clone();
                            let shape = ((round + t) % 11) as u64;
                            r["shape"] = Value::from(shape);
                            let o = run_one(&r, false, false);
                            let cur = (o["out"]["kind"].clone(), o["out"]["bits"].clone());
                            let changed = last.get(&idx) != Some(&cur);
                            if !compress || changed {
                                v.push(json!({"id": o["id"], "thread": t, "seq": seq, "shape": shape, "kind": cur.0, "bits": cur.1, "calls_so_far": round + 1}));
                                last.insert(idx, cur);
                            }
                            seq += 1;
                        }
                    }
                    return v;
                }
                for k in 0..n {
                    // each thread walks the records in its own order, with its own iterator shape and
                    // its own stack poisoning pattern
                    let step = [1usize, 3, 7, 11, 13, 17, 19, 23][t % 8];
                    let idx = (k * step + t * 5) % n;
                    let mut r = recs[idx].clone();
                    let shape = (r.get("shape").and_then(|v| v.as_u64()).unwrap_or(0) + t as u64 + (k as u64 / 3)) % 11;
                    r["shape"] = Value::from(shape);
                    let o = run_one(&r, poison && ((k + t) % 2 == 0), false);
                    v.push(json!({"id": o["id"], "thread": t, "seq": k, "shape": shape, "kind": o["out"]["kind"], "bits": o["out"]["bits"]}));
                }
                v
            }));
        }
        for h in handles {
            for o in h.join().unwrap() {
                out.line(&o);
            }
        }
    }
    out.flush();
}
