//! run_frontend: run every shipped copy of the reference string front-end
//! (extracted from the repository files by build.rs) on byte strings (C19).
//!
//! Input:  {"id", "bytes":[int..]}
//! Output: input + {"outs":[{"copy","specials","fmt","kind":"value"|"panic","bits":[limbs],"rest":int}..]}

use serde_json::{json, Value};
use std::panic::{catch_unwind, AssertUnwindSafe};
use verif_harness::*;

include!(concat!(env!("OUT_DIR"), "/copy_example.rs"));
include!(concat!(env!("OUT_DIR"), "/copy_fuzz.rs"));
include!(concat!(env!("OUT_DIR"), "/copy_integration.rs"));
include!(concat!(env!("OUT_DIR"), "/copy_golang.rs"));
include!(concat!(env!("OUT_DIR"), "/copy_unittests.rs"));
include!(concat!(env!("OUT_DIR"), "/copy_random.rs"));
include!(concat!(env!("OUT_DIR"), "/copy_rng.rs"));

type E32 = fn(&[u8]) -> (u32, usize);
type E64 = fn(&[u8]) -> (u64, usize);

fn main() {
    let args: Vec<String> = std::env::args().collect();
    let inp = arg_value(&args, "--in").expect("--in");
    let outp = arg_value(&args, "--out").expect("--out");
    std::panic::set_hook(Box::new(|_| {}));
    let copies: Vec<(&str, bool, E32, E64)> = vec![
        ("example", copy_example::HAS_SPECIALS, copy_example::entry32, copy_example::entry64),
        ("fuzz", copy_fuzz::HAS_SPECIALS, copy_fuzz::entry32, copy_fuzz::entry64),
        ("integration", copy_integration::HAS_SPECIALS, copy_integration::entry32, copy_integration::entry64),
        ("golang", copy_golang::HAS_SPECIALS, copy_golang::entry32, copy_golang::entry64),
        ("unittests", copy_unittests::HAS_SPECIALS, copy_unittests::entry32, copy_unittests::entry64),
        ("random", copy_random::HAS_SPECIALS, copy_random::entry32, copy_random::entry64),
        ("rng", copy_rng::HAS_SPECIALS, copy_rng::entry32, copy_rng::entry64),
    ];
    let only: Option<String> = arg_value(&args, "--copies");
    let mut out = Out::create(&outp);
    // a call that does not return within VERIF_HANG_SECS (default 60 s; inputs are a few kB) is recorded as kind "hang";
    // a copy that hung once is not called again (every later record of it is "hang" too)
    let limit: u64 = std::env::var("VERIF_HANG_SECS").ok().and_then(|s| s.parse().ok()).unwrap_or(60);
    let mut hung: std::collections::HashSet<String> = std::collections::HashSet::new();
    for r in read_records(&inp) {
        let bytes: Vec<u8> = r["bytes"].as_array().unwrap().iter().map(|x| x.as_u64().unwrap() as u8).collect();
        let mut outs: Vec<Value> = Vec::new();
        for (name, specials, e32, e64) in copies.iter() {
            if let Some(o) = &only {
                if !o.split(',').any(|x| x == *name) {
                    continue;
                }
            }
            let (e32, e64) = (*e32, *e64);
            let done = if hung.contains(*name) {
                None
            } else {
                let b2 = bytes.clone();
                call_with_limit(limit, move || {
                    (catch_unwind(AssertUnwindSafe(|| e64(&b2))), catch_unwind(AssertUnwindSafe(|| e32(&b2))))
                })
            };
            let (r64, r32) = match done {
                Some(x) => x,
                None => {
                    hung.insert(name.to_string());
                    outs.push(json!({"copy": name, "specials": specials, "fmt": "f64", "kind": "hang", "bits": [], "rest": 0}));
                    outs.push(json!({"copy": name, "specials": specials, "fmt": "f32", "kind": "hang", "bits": [], "rest": 0}));
                    continue;
                },
            };
            outs.push(match r64 {
                Ok((_, usize::MAX)) => json!({"copy": name, "specials": specials, "fmt": "f64", "kind": "unextractable", "bits": [], "rest": 0}),
                Ok((b, rest)) => json!({"copy": name, "specials": specials, "fmt": "f64", "kind": "value", "bits": limbs(b as u128), "rest": rest}),
                Err(_) => json!({"copy": name, "specials": specials, "fmt": "f64", "kind": "panic", "bits": [], "rest": 0}),
            });
            outs.push(match r32 {
                Ok((_, usize::MAX)) => json!({"copy": name, "specials": specials, "fmt": "f32", "kind": "unextractable", "bits": [], "rest": 0}),
                Ok((b, rest)) => json!({"copy": name, "specials": specials, "fmt": "f32", "kind": "value", "bits": limbs(b as u128), "rest": rest}),
                Err(_) => json!({"copy": name, "specials": specials, "fmt": "f32", "kind": "panic", "bits": [], "rest": 0}),
            });
        }
        let mut o = r.clone();
        o["outs"] = Value::Array(outs);
        out.line(&o);
    }
    out.flush();
}
