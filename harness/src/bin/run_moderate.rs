//! run_moderate: call `parse::moderate_path::<F>` (Eisel-Lemire in default
//! builds, Bellerophon in compact builds) on (w, q, truncated) records.
//!
//! Input:  {"id":n,"fmt":"f32"|"f64","w":[limbs],"q":i32,"trunc":bool}
//! Output: input + {"cfg", "res": {"kind":"value"|"panic","valid":bool,"mant":[limbs],"exp":i32,"bits":[limbs]}}
//!   exp is the raw biased exponent for definite results, and the estimate's
//!   exponent with the INVALID_FP bias removed for declined ones.

use minimal_lexical::extended_float::extended_to_float;
use minimal_lexical::number::Number;
use minimal_lexical::parse::moderate_path;
use minimal_lexical::Float;
use serde_json::{json, Value};
use std::panic::{catch_unwind, AssertUnwindSafe};
use verif_harness::*;

fn one<F: Float>(w: u64, q: i32, trunc: bool) -> Value {
    let num = Number {
        mantissa: w,
        exponent: q,
        many_digits: trunc,
    };
    let r = catch_unwind(AssertUnwindSafe(|| {
        let fp = moderate_path::<F>(&num);
        if fp.exp >= 0 {
            let bits = extended_to_float::<F>(fp).to_bits();
            json!({"kind": "value", "valid": true, "mant": limbs(fp.mant as u128), "exp": fp.exp, "bits": limbs(bits as u128)})
        } else {
            json!({"kind": "value", "valid": false, "mant": limbs(fp.mant as u128), "exp": fp.exp - F::INVALID_FP, "bits": []})
        }
    }));
    match r {
        Ok(v) => v,
        Err(_) => json!({"kind": "panic", "valid": false, "mant": [], "exp": 0, "bits": []}),
    }
}

fn main() {
    let args: Vec<String> = std::env::args().collect();
    let inp = arg_value(&args, "--in").expect("--in");
    let outp = arg_value(&args, "--out").expect("--out");
    if !arg_flag(&args, "--show-panics") {
        std::panic::set_hook(Box::new(|_| {}));
    }
    let mut out = Out::create(&outp);
    let limit: u64 = std::env::var("VERIF_HANG_SECS").ok().and_then(|s| s.parse().ok()).unwrap_or(60);
    for r in read_records(&inp) {
        let w = from_limbs(&r["w"]) as u64;
        let q = r["q"].as_i64().unwrap() as i32;
        let trunc = r["trunc"].as_bool().unwrap();
        // a call that does not return within VERIF_HANG_SECS (default 60 s; a call takes microseconds) is data: kind "hang"
        let is32 = r["fmt"].as_str().unwrap() == "f32";
        let res = call_with_limit(limit, move || {
            if is32 {
                one::<f32>(w, q, trunc)
            } else {
                one::<f64>(w, q, trunc)
            }
        })
        .unwrap_or_else(|| json!({"kind": "hang", "bits": [], "exp": 0, "mant": [], "valid": false}));
        let mut o = r.clone();
        o["cfg"] = Value::from(cfg_name());
        o["res"] = res;
        out.line(&o);
    }
    out.flush();
}
