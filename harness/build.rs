//! Extract the reference string front-end from every file of the repository
//! that ships a copy of it (from the helpers starting at `fn parse_sign` to
//! the end of `fn parse_float`), so that the harness compiles and runs exactly
//! the shipped text.  Re-runs whenever one of those files changes.
use std::env;
use std::fs;
use std::path::Path;

const COPIES: &[(&str, &str)] = &[
    ("example", "examples/simple.rs"),
    ("fuzz", "fuzz/fuzz_targets/parse.rs"),
    ("integration", "tests/integration_tests.rs"),
    ("golang", "etc/correctness/test-parse-golang/main.rs"),
    ("unittests", "etc/correctness/test-parse-unittests/main.rs"),
    ("random", "etc/correctness/test-parse-random/_common.rs"),
    ("rng", "etc/correctness/rng-tests/_common.rs"),
];

fn extract(text: &str, _path: &str) -> Option<String> {
    let lines: Vec<&str> = text.lines().collect();
    let start_fn = lines
        .iter()
        .position(|l| l.starts_with("fn parse_sign") || l.starts_with("pub fn parse_sign"))?;
    // back up over attributes and doc comments
    let mut start = start_fn;
    while start > 0 && (lines[start - 1].starts_with("#[") || lines[start - 1].starts_with("///")) {
        start -= 1;
    }
    let pf = lines
        .iter()
        .position(|l| l.starts_with("fn parse_float") || l.starts_with("pub fn parse_float"))?;
    let end = (pf..lines.len()).find(|&k| lines[k] == "}")?;
    if !(start < pf && pf < end) {
        return None;
    }
    Some(lines[start..=end].join("\n"))
}

fn main() {
    let repo = env::var("VERIF_REPO").unwrap_or_else(|_| "/repo".to_string());
    let out_dir = env::var("OUT_DIR").unwrap();
    println!("cargo:rerun-if-env-changed=VERIF_REPO");
    println!("cargo:rerun-if-changed=build.rs");
    for (name, rel) in COPIES {
        let p = format!("{}/{}", repo, rel);
        println!("cargo:rerun-if-changed={}", p);
        let body = fs::read_to_string(&p).ok().and_then(|text| extract(&text, &p));
        // A copy that cannot be located is a tool error of the C19 check only (the
        // other binaries must still build): emit a stub that says so at run time.
        let body = match body {
            Some(b) => b,
            None => {
                let stub = format!(
                    "pub mod copy_{name} {{\npub const HAS_SPECIALS: bool = false;\npub const EXTRACTED: bool = false;\npub fn entry32(_b: &[u8]) -> (u32, usize) {{ (0, usize::MAX) }}\npub fn entry64(_b: &[u8]) -> (u64, usize) {{ (0, usize::MAX) }}\n}}\n",
                    name = name
                );
                fs::write(Path::new(&out_dir).join(format!("copy_{}.rs", name)), stub).unwrap();
                continue;
            },
        };
        let has_specials = body.contains("case_insensitive_starts_with");
        let module = format!(
            "#[allow(dead_code, unused, clippy::all)]\npub mod copy_{name} {{\n{body}\n\npub const HAS_SPECIALS: bool = {has};\npub const EXTRACTED: bool = true;\npub fn entry32(b: &[u8]) -> (u32, usize) {{ let (f, r) = parse_float::<f32>(b); (f.to_bits(), r.len()) }}\npub fn entry64(b: &[u8]) -> (u64, usize) {{ let (f, r) = parse_float::<f64>(b); (f.to_bits(), r.len()) }}\n}}\n",
            name = name,
            body = body,
            has = has_specials
        );
        fs::write(Path::new(&out_dir).join(format!("copy_{}.rs", name)), module).unwrap();
    }
}
